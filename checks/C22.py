"""C22 k-point mesh reduction integrates symmetric functions exactly.

Crystal and mesh divisions are enumerated; the real fullkptmesh / reducekptmesh / inBZ run concretely; the
INVARIANT PERIODIC FUNCTION is symbolic: f(k) = sum_s c_s sum_{R in shell s} cos(k.R) with every coefficient
c_s a solver real, and z3 decides mean_full f == sum_i w_i f(k_i) for all coefficient vectors (QF_LRA).
Weights positive and summing to one, and every mesh point inside the Brillouin zone, are decided on the
same run."""
import itertools
import sys

import numpy as np

from symx import run, loader

PROBE = '--meshprobe' in sys.argv
REPLAY = run.is_replay()
if REPLAY or PROBE:
    loader.install_plain()
else:
    loader.install()

from onsager import crystal   # noqa: E402
from symx import core, harness, shim   # noqa: E402
from symx.harness import Src   # noqa: E402
sys.path.insert(0, __file__.rsplit('/', 1)[0])
import geom   # noqa: E402


def shells(crys, nmax=6, rmax=2.0):
    """orbits of lattice vectors under the point group (Cartesian), |R| <= rmax"""
    dim = crys.dim
    vecs = []
    for n in itertools.product(range(-nmax, nmax + 1), repeat=dim):
        Rv = np.dot(crys.lattice, np.array(n))
        if np.dot(Rv, Rv) <= rmax * rmax + 1e-9:
            vecs.append(Rv)
    rots = [np.array(g.cartrot) for g in crys.G]
    orbits = []
    used = [False] * len(vecs)
    for i, v in enumerate(vecs):
        if used[i]:
            continue
        orb = []
        for Rm in rots:
            w = np.dot(Rm, v)
            for j, u in enumerate(vecs):
                if not used[j] and np.allclose(u, w, atol=1e-7):
                    used[j] = True
                    orb.append(u)
        if not used[i]:
            used[i] = True
            orb.append(v)
        orbits.append(orb)
    orbits.sort(key=lambda o: (round(float(np.dot(o[0], o[0])), 6), len(o)))
    # each orbit must be closed under the point group (the enumeration box contains the ball |R| <= rmax)
    for orb in orbits:
        for Rm in rots:
            for v in orb:
                if not any(np.allclose(np.dot(Rm, v), u, atol=1e-7) for u in orb):
                    raise RuntimeError('shell not closed: harness error')
    return orbits


def mesh(cname, N):
    def fn(src=None):
        src = src or Src()
        crys = geom.get_crystal(cname)
        name = 'mesh:%s:%s' % (cname, 'x'.join(map(str, N)))
        obs = []
        sh = shells(crys, rmax=2.0 * SCALE.get(cname, 1.0))[:10]
        c = src.reals('c', len(sh), -1, 1)
        info = src.info(replayer='mesh', extra={'crystal': cname, 'N': list(N)})

        def ob(n, v):
            obs.append(('%s:%s' % (name, n), v, dict(info, sig='mesh:' + n)))
        kfull = crys.fullkptmesh(N)
        ksym, w = crys.reducekptmesh(kfull.copy())
        ob('weights-positive', bool(np.all(w > 0)))
        ob('weights-sum-to-one', bool(abs(np.sum(w) - 1) < 1e-9))
        ob('full-mesh-count', len(kfull) == int(np.prod(N)))
        ob('points-in-BZ', all(crys.inBZ(k) for k in kfull) and all(crys.inBZ(k) for k in ksym))
        # independent BZ test: no reciprocal lattice point is closer to k than the origin (to 1e-5)
        nb = 2 if cname not in ('skew16', 'skew34', 'mono-unreduced', 'sheared3') else 6
        Gs = [np.dot(crys.reciplatt, np.array(n)) for n in itertools.product(range(-nb, nb + 1), repeat=crys.dim) if any(n)]
        ob('points-in-BZ-independent', all(np.dot(k, k) <= np.dot(k - G, k - G) + 1e-5 for k in ksym for G in Gs))
        Ffull = np.array([[sum(np.cos(np.dot(k, Rv)) for Rv in orb) for orb in sh] for k in kfull])
        Fsym = np.array([[sum(np.cos(np.dot(k, Rv)) for Rv in orb) for orb in sh] for k in ksym])
        lhs = np.dot(np.mean(Ffull, axis=0), c)
        rhs = np.dot(np.dot(w, Fsym), c)
        ob('reduced-average-equals-full-average', harness.close([lhs], [rhs], 1e-9))
        # every reduced point is a mesh point; every mesh point is an image of a reduced point
        ob('reduced-points-from-mesh', all(any(np.allclose(k, kf, atol=1e-8) for kf in kfull) for k in ksym))
        if src.symbolic:
            obs.append(('twin:%s' % name, harness.close([lhs], [rhs + 1e-6], 1e-9)))
        return obs
    return fn


def mesh_sequence(cname, Ns):
    """several meshes reduced one after the other on ONE Crystal object (same number of points, different divisions): every
    reduction must be right, whatever was reduced before"""
    def fn(src=None):
        src = src or Src()
        obs = []
        for N in Ns:
            for o in mesh(cname, N)(src):
                if o[0].startswith('twin:') and N != Ns[-1]:
                    continue
                info = dict(o[2], replayer='meshseq', extra={'crystal': cname, 'Ns': [list(n) for n in Ns]}) if len(o) > 2 else None
                obs.append((o[0].replace('mesh:', 'meshseq:', 1), o[1], info) if info else (o[0].replace('mesh:', 'meshseq:', 1), o[1]))
        return obs
    return fn


class _ZoneStub(object):
    """what Crystal.genBZG / inBZ read of a crystal: dim, lattice, reciplatt (the real methods run on it)"""
    def __init__(self, dim, lattice, reciplatt):
        self.dim, self.lattice, self.reciplatt = dim, lattice, reciplatt
        self.BZG = None

    def inBZ(self, vec, BZG=None, threshold=1e-5):
        return crystal.Crystal.inBZ(self, vec, BZG, threshold)


def voronoi_vectors(reciplatt, dim, nmax=None):
    """independent oracle: halves of the reciprocal lattice vectors G whose midpoint G/2 is strictly nearer to the origin than to
    every other reciprocal lattice point (the Voronoi-relevant vectors; unit scale, concrete).  Search box: a Voronoi-relevant
    vector is at most twice the covering radius long, the covering radius is at most half the sum of the basis vector lengths,
    and |n_i| <= |G| |row_i(B^-1)|: all candidates have |n_i| <= sum_j |b_j| * |row_i(B^-1)| (+1 for the comparison partners)."""
    if nmax is None:
        tot = sum(np.sqrt(np.dot(reciplatt[:, j], reciplatt[:, j])) for j in range(dim))
        inv = np.linalg.inv(reciplatt)
        nmax = int(max(np.floor(tot * np.sqrt(np.dot(inv[i], inv[i])) + 1e-9) for i in range(dim))) + 1
    Gs = [np.dot(reciplatt, np.array(n)) for n in itertools.product(range(-nmax, nmax + 1), repeat=dim) if any(n)]
    out = []
    for G in Gs:
        p = 0.5 * G
        if all(np.dot(p, H) < 0.5 * np.dot(H, H) - 1e-9 for H in Gs if not np.allclose(H, G)):
            out.append(p)
    return out


def zone(cname, lo=0.125, hi=64.0):
    """The LENGTH SCALE of the lattice is a solver real s in [lo, hi] (the sections split [1/8, 64]; lattice = s L0, reciprocal lattice = R0 / s): the real
    genBZG / inBZ run on it and z3 decides, on every path, that the zone-bounding vectors are exactly the Voronoi-relevant
    reciprocal vectors of the unit-scale lattice divided by s."""
    def fn(src=None):
        src = src or Src()
        c0 = geom.get_crystal(cname)
        dim = c0.dim
        s = src.real('scale', lo, hi)
        info = src.info(replayer='zone', extra={'crystal': cname, 'lo': lo, 'hi': hi})
        name = 'zone:%s:%g-%g' % (cname, lo, hi)
        if src.symbolic:
            L = (np.array(c0.lattice, dtype=object) * s).view(shim.SymArray)
            Rm = (np.array(c0.reciplatt, dtype=object) / s).view(shim.SymArray)
            stub = _ZoneStub(dim, L, Rm)
        else:
            stub = _ZoneStub(dim, c0.lattice * s, c0.reciplatt / s)
        B = crystal.Crystal.genBZG(stub)
        want = voronoi_vectors(c0.reciplatt, dim)
        obs = []

        def ob(n, v):
            obs.append(('%s:%s' % (name, n), v, dict(info, sig='zone:' + n)))
        ob('zone-vector-count', len(B) == len(want))
        # every expected vector (scaled) is one of the returned rows, and every returned row is an expected vector: decided
        # by matching on the unit-scale values (s * row is scale free)
        rows = [[x * s for x in r] for r in B]
        conds = []
        for w in want:
            conds.append(core.Or(*[harness.close(r, w, 1e-7) for r in rows]) if src.symbolic else
                         any(np.allclose(np.array(r, dtype=float), w, atol=1e-7) for r in rows))
        for r in rows:
            conds.append(core.Or(*[harness.close(r, w, 1e-7) for w in want]) if src.symbolic else
                         any(np.allclose(np.array(r, dtype=float), w, atol=1e-7) for w in want))
        ob('zone-vectors-are-the-voronoi-vectors', core.And(*conds) if src.symbolic else all(conds))
        if src.symbolic:
            obs.append(('twin:%s' % name, len(B) != len(want) or core.Not(core.And(*conds))))
        return obs
    return fn


def terminates(cname, N, limit_s=120):
    """FLOAT behaviour the exact-arithmetic runs cannot see: mesh points lying on a zone face (found as the points with k.G == G.G
    in exact arithmetic) must not keep the folding loop of the real float code running for ever.  The real fullkptmesh runs in a
    child process under a time limit (a concrete replay on the plain code, not a solver verdict: stated as such in the evidence)."""
    def fn(src=None):
        import os
        import subprocess
        src = src or Src()
        info = src.info(replayer='terminate', extra={'crystal': cname, 'N': list(N)})
        try:
            r = subprocess.run([sys.executable, os.path.abspath(__file__), '--meshprobe', cname] + [str(n) for n in N],
                               timeout=limit_s, stdout=subprocess.PIPE, stderr=subprocess.STDOUT)
            ok = r.returncode == 0
        except subprocess.TimeoutExpired:
            ok = False
        return [('terminate:%s:%s:mesh-generation-terminates' % (cname, 'x'.join(map(str, N))), ok,
                 dict(info, sig='terminate:mesh-generation-terminates'))]
    return fn


def _meshprobe():
    i = sys.argv.index('--meshprobe')
    cname, N = sys.argv[i + 1], tuple(int(x) for x in sys.argv[i + 2:])
    crys = geom.get_crystal(cname)
    k = crys.fullkptmesh(N)
    sys.exit(0 if len(k) == int(np.prod(N)) else 1)


TERM_Q = [('rhomb50', (6, 6, 6)), ('rhomb', (6, 6, 6)), ('hcp', (6, 6, 6)), ('fcc', (8, 8, 8)), ('tria', (6, 6)), ('bct', (4, 4, 4))]
TERM_T = TERM_Q + [('rhomb50', (4, 4, 4)), ('rhomb50', (8, 8, 8)), ('sheared3', (8, 8, 8)), ('tricl', (6, 6, 6)), ('oblique', (8, 8)), ('hex1', (6, 6, 6))]
ZONE_Q = ['square', 'tria', 'rect1', 'oblique', 'skew16', 'skew34', 'sc', 'fcc']
ZONE_T = ZONE_Q + ['mono-unreduced', 'hcp', 'bcc', 'bct', 'tricl', 'rhomb', 'hex1', 'ortho1']
ZONE_RANGES = [(0.125, 1.0), (1.0, 2.5), (2.5, 4.5), (4.5, 12.0), (12.0, 64.0)]
SEQ3 = [(4, 4, 6), (6, 4, 4), (4, 6, 4), (3, 4, 8)]
SEQ2 = [(4, 6), (6, 4), (3, 8)]
MESH3 = [(4, 4, 4), (5, 5, 5), (4, 6, 3), (3, 3, 3)]
MESH2 = [(6, 6), (5, 4), (3, 3)]
SCALE = {'fcc-a4': 4.0, 'hcp-a3': 3.0, 'sc-a5': 5.0, 'tria-a4': 4.0, 'bct-a10': 10.0}
QUICK = ['sc', 'fcc', 'hcp', 'bcc', 'square', 'tria', 'rect1', 'honeycomb', 'bct', 'tricl', 'rhomb', 'oblique', 'fcc-a4', 'hcp-a3', 'tria-a4', 'sheared3', 'skew16', 'skew34', 'mono-unreduced']
THOROUGH = QUICK + ['sc-a5', 'bct-a10', 'hex1', 'rumpled', 'diamond', 'l12', 'ortho1', 'rect2', 'wurtzite', 'afm-bcc']


def sections(tier):
    S = run.Section
    secs = []
    for c in (QUICK if tier == 'quick' else THOROUGH):
        dim = geom.get_crystal(c).dim
        for N in (MESH3 if dim == 3 else MESH2):
            if tier == 'quick' and N in ((5, 5, 5),) and c in ('hcp',):
                continue
            secs.append(S('mesh:%s:%s' % (c, 'x'.join(map(str, N))), mesh(c, N), budget_s=170 if tier == 'quick' else 1200, replayer='mesh',
                          config=c, maxpaths=2, timeout_ms=30000))
    for c, N in (TERM_Q if tier == 'quick' else TERM_T):
        secs.append(S('terminate:%s:%s' % (c, 'x'.join(map(str, N))), terminates(c, N), budget_s=170, replayer='terminate', config=c, maxpaths=1,
                      timeout_ms=30000))
    for c in (ZONE_Q if tier == 'quick' else ZONE_T):
        for lo, hi in ZONE_RANGES:
            secs.append(S('zone:%s:%g-%g' % (c, lo, hi), zone(c, lo, hi), budget_s=170 if tier == 'quick' else 1200, replayer='zone', config=c,
                          maxpaths=200, timeout_ms=30000))
    for c in (['ortho1', 'hcp', 'tricl', 'rect1', 'oblique'] if tier == 'quick' else ['ortho1', 'hcp', 'tricl', 'rect1', 'oblique', 'sc', 'bct', 'square', 'rect2']):
        dim = geom.get_crystal(c).dim
        Ns = SEQ3 if dim == 3 else SEQ2
        secs.append(S('meshseq:%s' % c, mesh_sequence(c, Ns), budget_s=170 if tier == 'quick' else 1200, replayer='meshseq', config=c,
                      maxpaths=2, timeout_ms=30000))
    return secs


def main():
    import warnings
    warnings.simplefilter('ignore')
    if PROBE:
        _meshprobe()
    if REPLAY:
        run.replay_main('C22', {'terminate': lambda rec: harness.run_laws_concrete(terminates(rec['extra']['crystal'], tuple(rec['extra']['N'])), rec),
                                'zone': lambda rec: harness.run_laws_concrete(zone(rec['extra']['crystal'], rec['extra']['lo'], rec['extra']['hi']), rec),
                                'mesh': lambda rec: harness.run_laws_concrete(mesh(rec['extra']['crystal'], tuple(rec['extra']['N'])), rec),
                                'meshseq': lambda rec: harness.run_laws_concrete(mesh_sequence(rec['extra']['crystal'], [tuple(n) for n in rec['extra']['Ns']]), rec)})
    C = crystal.Crystal
    chk = run.Check(
        'C22',
        functions=[loader.func_hash(f) for f in (C.fullkptmesh, C.reducekptmesh, C.inBZ, C.genBZG, C.g_direc)],
        assumptions=[
            'crystals and mesh divisions enumerated (even, odd and mixed); the mesh routines themselves take no continuous input, so they '
            'run concretely; what is universally quantified by the solver is the invariant periodic function: all coefficient vectors of '
            'the family sum_s c_s sum_{R in shell s} cos(k.R) (10 shells of lattice vectors, |c_s|<=1), identity to 1e-9',
            'skewed lattices (body-centred tetragonal, rhombohedral, triclinic, oblique) are in the list: Brillouin-zone membership is decided both by the library\'s inBZ and by an independent nearest-reciprocal-lattice-point test',
        ],
        explanation='Real mesh generation/reduction; exactness of the reduced quadrature for every function of an invariant periodic family '
                    'decided by z3; weights and BZ membership decided on the same run.',
        bounds='quick: %s; thorough: %s; meshes %s / %s; sequences on one Crystal object %s / %s' % (QUICK, THOROUGH, MESH3, MESH2, SEQ3, SEQ2))
    chk.run(sections(chk.tier))
    chk.finish()


if __name__ == '__main__':
    main()
