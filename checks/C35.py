"""C35 the compiled sampler behaves exactly like the reference sampler.

The Python bodies that numba compiles (MonteCarloSampler_jit.class_type.jit_methods[*].py_func, parameters
from MonteCarloSampler_param) are executed on solver terms next to the reference sampler on the same
occupation (solver case split) with symbolic cluster / KRA / TS values: start, E, deltaE_trial, update,
transitions agree (forbidden => infinite barrier) and a batch MCmoves with symbolic choices and symbolic
kT*log(u) equals move-by-move Metropolis on the reference sampler.  numba's compilation itself is trusted;
counterexamples are replayed on the compiled class."""
import sys

import numpy as np

from symx import run, loader

REPLAY = run.is_replay()
if REPLAY:
    loader.install_plain()
else:
    loader.install()

from onsager import cluster, supercell   # noqa: E402
from symx import core, harness, shim   # noqa: E402
from symx.core import ENG, Sym   # noqa: E402
from symx.harness import Src   # noqa: E402
from symx.shim import SymArray   # noqa: E402
sys.path.insert(0, __file__.rsplit('/', 1)[0])
import mc   # noqa: E402

J = cluster.MonteCarloSampler_jit
_JITPY = []


def jit_twin(par, symbolic):
    """object running the uncompiled bodies (symbolic) / the compiled class (replay)"""
    if not symbolic:
        par = dict(par)
        par['interactvalue'] = np.asarray(par['interactvalue'], dtype=float)
        par['siteinteract'] = np.ascontiguousarray(par['siteinteract'], dtype=np.int64)
        par['Ninteract'] = np.ascontiguousarray(par['Ninteract'], dtype=np.int64)
        par['jump_dx'] = np.ascontiguousarray(par['jump_dx'], dtype=float).reshape((-1, 3)) if par['Njumps'] else par['jump_dx']
        par['jump_ij'] = np.ascontiguousarray(par['jump_ij'], dtype=np.int64)
        par['interactrange'] = np.ascontiguousarray(par['interactrange'], dtype=np.int64)
        return J(**par)
    if not _JITPY:
        _JITPY.append(type('JitBodies', (object,), {k: d.py_func for k, d in J.class_type.jit_methods.items()}))
    par = dict(par)
    par['jump_Q'] = np.array(par['jump_Q'], dtype=object).view(SymArray)
    return _JITPY[0](**par)


def isinf(x):
    return isinstance(x, (float, np.floating)) and np.isinf(x)


def same_state(MC, MJ):
    """occupation, cluster counts and occupied/unoccupied sets describe the same state"""
    n = len(MC.occ)
    return bool(np.all(np.asarray(MC.occ) == np.asarray(MJ.occ))) and \
        bool(np.all(np.asarray(MC.clustercount) == np.asarray(MJ.clustercount))) and \
        set(int(x) for x in MJ.occupied_set[:MJ.Nocc]) == MC.occupied_set and \
        set(int(x) for x in MJ.unoccupied_set[:MJ.Nunocc]) == MC.unoccupied_set and \
        all((MJ.occupied_set[MJ.index[i]] == i) if MC.occ[i] == 1 else ((MJ.unoccupied_set[MJ.index[i]] == i) if MC.occ[i] == 0 else True)
            for i in range(n))


def equiv(cname, nmoves):
    def fn(src=None):
        src = src or Src()
        cfg = mc.build(cname)
        name = 'jit:%s:%d' % (cname, nmoves)
        V = mc.Vals(cfg, src)
        mocc, socc = mc.occupations(cfg, src)
        sym = src.symbolic
        n = cfg['nmob']
        obs = []
        info = src.info(replayer='jit', extra={'cfg': cname, 'nmoves': nmoves})

        def ob(nm, v, sig=None):
            obs.append(('%s:%s' % (name, nm), v, dict(info, sig='jit:' + (sig or nm.split('@')[0]))))
        with shim.symbolic_mode():
            MC = mc.make_sampler(cfg, V, socc, jumps=True, ts=True)
            try:
                MJ = jit_twin(cluster.MonteCarloSampler_param(MC), sym)     # built from a sampler that has not been started
                MC.start(mocc.copy())
                MJ.start(mocc.copy())
                ob('start-state', same_state(MC, MJ))
                ob('E', mc.lin_eq(MC.E(), MJ.E(), sym))
                # built from a started sampler
                MJ2 = jit_twin(cluster.MonteCarloSampler_param(MC), sym)
                ob('param-of-started-state', same_state(MC, MJ2))
                ob('param-of-started-E', mc.lin_eq(MC.E(), MJ2.E(), sym))
                # a compiled sampler built from a STARTED reference is an independent object: advancing it first and the
                # reference afterwards must give the same state (no shared arrays)
                un0 = [i for i in range(n) if mocc[i] == 0]
                oc0 = [i for i in range(n) if mocc[i] == 1]
                if un0 and oc0:
                    MCb = mc.make_sampler(cfg, V, socc, jumps=True, ts=True)
                    MCb.start(mocc.copy())
                    MJb = jit_twin(cluster.MonteCarloSampler_param(MCb), sym)
                    a0, b0 = un0[0], oc0[-1]
                    MJb.update(a0, b0)
                    MCb.update((a0,), (b0,))
                    ob('compiled-first-then-reference-state', same_state(MCb, MJb))
                    ob('compiled-first-then-reference-E', mc.lin_eq(MCb.E(), MJb.E(), sym))
            except Exception as e:   # noqa
                ob('construct-or-start-raises', False, 'raises:' + type(e).__name__)
                return obs
            # transitions: same allowed set, same barriers, forbidden marked infinite
            try:
                ij, Q, dx = MC.transitions()
                jij, jQ, jdx = MJ.transitions()
                ref = {}
                for (i, j), q, d in zip(ij, Q, dx):
                    ref.setdefault((int(i), int(j)), []).append(q)
                cnt = {}
                okall = True
                for k in range(len(jij)):
                    key = (int(jij[k][0]), int(jij[k][1]))
                    if isinf(jQ[k]):
                        allowed = (mocc[key[0]] == -1) or (mocc[key[0]] == 1 and mocc[key[1]] == 0)
                        ob('forbidden-marked-inf@%d' % k, not allowed)
                    else:
                        lst = ref.get(key, [])
                        c = cnt.get(key, 0)
                        cnt[key] = c + 1
                        ob('barrier@%d' % k, (c < len(lst)) and mc.lin_eq(lst[c], jQ[k], sym))
                ob('same-number-allowed', sum(cnt.values()) == len(ij))
            except Exception as e:   # noqa
                ob('transitions-raises', False, 'raises:' + type(e).__name__)
            # single trial moves and updates for every valid (occupy, unoccupy) pair
            unocc_sites = [i for i in range(n) if mocc[i] == 0]
            occ_sites = [i for i in range(n) if mocc[i] == 1]
            for a in unocc_sites:
                for b in occ_sites:
                    ob('deltaE@%d,%d' % (a, b), mc.lin_eq(MC.deltaE_trial((a,), (b,)), MJ.deltaE_trial(a, b), sym))
            # batched Metropolis moves with symbolic choices and thresholds == move by move on the reference sampler
            if unocc_sites and occ_sites and nmoves:
                occch, unoccch, kT = [], [], []
                for k in range(nmoves):
                    occch.append(int(src.int('occchoice%d' % k, 0, len(unocc_sites) - 1)))
                    unoccch.append(int(src.int('unoccchoice%d' % k, 0, len(occ_sites) - 1)))
                    kT.append(src.real('kTlogu%d' % k, 0, 16))
                # reference: move by move (the choice indexes the jit sampler's own set arrays, as documented)
                shadow = jit_twin(cluster.MonteCarloSampler_param(MC), sym)
                for k in range(nmoves):
                    a = int(shadow.unoccupied_set[occch[k]])
                    b = int(shadow.occupied_set[unoccch[k]])
                    dE = MC.deltaE_trial((a,), (b,))
                    acc = dE < kT[k]
                    if sym and isinstance(acc, core.SymBool):
                        acc = bool(acc)      # fork on the Metropolis decision
                        # guard band: the decision is not razor-edge (float comparison)
                    if acc:
                        MC.update((a,), (b,))
                        shadow.update(a, b)
                kTarr = SymArray(kT) if sym else np.array(kT, dtype=float)
                MJ.MCmoves(np.array(occch, dtype=int), np.array(unoccch, dtype=int), kTarr)
                ob('MCmoves-state', same_state(MC, MJ))
                ob('MCmoves-E', mc.lin_eq(MC.E(), MJ.E(), sym))
            # restart BOTH samplers (already run) on the original occupation: state, energy, transitions and barriers agree again
            try:
                MC.start(mocc.copy())
                MJ.start(mocc.copy())
                ob('restart-state', same_state(MC, MJ))
                ob('restart-E', mc.lin_eq(MC.E(), MJ.E(), sym))
                ij, Q, dx = MC.transitions()
                jij, jQ, jdx = MJ.transitions()
                ref = {}
                for (i, j), q, d in zip(ij, Q, dx):
                    ref.setdefault((int(i), int(j)), []).append(q)
                cnt = {}
                conds = []
                for k in range(len(jij)):
                    key = (int(jij[k][0]), int(jij[k][1]))
                    if isinf(jQ[k]):
                        continue
                    lst = ref.get(key, [])
                    c = cnt.get(key, 0)
                    cnt[key] = c + 1
                    conds.append((c < len(lst)) and mc.lin_eq(lst[c], jQ[k], sym))
                conds.append(sum(cnt.values()) == len(ij))
                ob('restart-barriers', core.And(*conds) if sym else all(bool(c) for c in conds))
            except Exception as e:   # noqa
                ob('restart-raises', False, 'raises:' + type(e).__name__)
            if sym:
                obs.append(('twin:%s:E-shifted' % name, mc.lin_eq(MC.E(), MJ.E() + 1e-6, True)))
        return obs
    return fn


QUICK = [('sc221', 2), ('sc221v', 1), ('hcp211', 1), ('b2-211', 2)]
THOROUGH = [('sc221', 3), ('sc221v', 2), ('hcp211', 2), ('b2-211', 3), ('fcc122v', 2), ('sc122v', 2), ('sc221-o3', 2), ('b2-113v', 2)]


def sections(tier):
    S = run.Section
    return [S('jit:%s:%d' % (c, m), equiv(c, m), budget_s=170 if tier == 'quick' else 1200, replayer='jit', config=c,
              maxpaths=200000, timeout_ms=10000) for c, m in (QUICK if tier == 'quick' else THOROUGH)]


def main():
    import warnings
    warnings.simplefilter('ignore')
    if REPLAY:
        run.replay_main('C35', {'jit': lambda rec: harness.run_laws_concrete(equiv(rec['extra']['cfg'], rec['extra']['nmoves']), rec)})
    chk = run.Check(
        'C35',
        functions=[loader.func_hash(cluster.MonteCarloSampler_param)] +
                  [loader.func_hash(d.py_func) for k, d in sorted(J.class_type.jit_methods.items())] +
                  [loader.func_hash(f) for f in (cluster.MonteCarloSampler.start, cluster.MonteCarloSampler.E,
                                                 cluster.MonteCarloSampler.transitions, cluster.MonteCarloSampler.deltaE_trial,
                                                 cluster.MonteCarloSampler.update)],
        assumptions=[
            'the uncompiled Python bodies of the jitclass methods are what is executed symbolically; numba\'s compilation is trusted '
            '(counterexamples are replayed on the compiled class)',
            'occupations: solver case split; cluster/KRA/TS values symbolic reals; batch of <=3 Metropolis moves with symbolic choices '
            '(case split) and symbolic thresholds kT*log(u) in [0,16]',
            'trial moves compared only where the compiled version documents defined behaviour (site to occupy currently unoccupied, '
            'site to unoccupy currently occupied)',
        ],
        explanation='Reference sampler and the bodies of the compiled sampler run side by side on symbolic values: start / E / '
                    'deltaE_trial / update / transitions / MCmoves agree as linear forms; forbidden transitions are marked infinite.',
        bounds='quick: %s; thorough: %s (config, batch length)' % (QUICK, THOROUGH))
    chk.run(sections(chk.tier))
    chk.finish()


if __name__ == '__main__':
    main()
