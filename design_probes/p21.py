import numpy as np
from fractions import Fraction
from onsager import crystal, OnsagerCalc
latt = np.array([[1.,0.,0.25],[0.,1.25,0.],[0.,0.,1.0]])   # columns a, b, c ; c has x-component
x, y, z = 0.125, 0.25, 0.375
orb = [np.array([x,y,z]), np.array([-x,y,-z])%1, np.array([-x,-y,-z])%1, np.array([x,-y,z])%1]
c = crystal.Crystal(latt, [[np.zeros(3)], orb + [np.array([0.5,0.5,0.5])]])
print(len(c.G), c.lattice.tolist())
for cut in (0.7, 0.8, 0.9):
    sl = c.sitelist(1); jn = c.jumpnetwork(1, cut)
    D = OnsagerCalc.Interstitial(c, 1, sl, jn)
    vb = np.array(D.VectorBasis)
    dyadic = all(Fraction(float(v)).denominator <= 2**20 for v in vb.flat) and all(Fraction(float(v)).denominator <= 2**20 for j in jn for ij, dx in j for v in dx)
    Dm = D.diffusivity(np.ones(len(sl)), np.zeros(len(sl)), np.ones(len(jn)), np.zeros(len(jn)))
    print(cut, 'N', D.N, sl, 'classes', len(jn), 'NV', D.NV, 'inv', D.omega_invertible, 'dyadic', dyadic, 'eig D', np.round(np.linalg.eigvalsh(Dm), 4))
