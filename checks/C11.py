"""C11 interstitial derivative outputs: populated elastic dipoles (this check decides the dipole part).

Interstitial.siteDipoles / jumpDipoles (with ProjectTensorBasis and the site / jump symmetric-tensor bases
built at construction) run on ARBITRARY, NON-SYMMETRIC symbolic input dipoles (d*d reals per class).  For
every site and every jump the populated dipole must equal g P(dipole) g^T for EVERY listed operation g that
carries the representative there, where P is the harness' independent projector: symmetrise, then average
over the stabiliser of the representative site / transition (operations mapping the jump onto itself or onto
its reverse).  QF_LRA, all dipole values."""
import sys

import numpy as np

from symx import run, loader

REPLAY = run.is_replay()
if REPLAY:
    loader.install_plain()
else:
    loader.install()

from onsager import crystal, OnsagerCalc   # noqa: E402
from symx import core, harness, shim   # noqa: E402
from symx.harness import Src   # noqa: E402
sys.path.insert(0, __file__.rsplit('/', 1)[0])
import geom   # noqa: E402

# name: (crystal, mobile chem, jump cutoff)
CASES = {'hcpoct': ('hcpot', 1, 0.7), 'bccoct': ('bccoct', 1, 0.6), 'fccint': ('fccint', 1, 0.5), 'rumpled': ('rumpled', 0, 1.1),
         'rect2': ('rect2', 0, 0.9), 'mono': ('mono', 1, 1.2), 'honeycomb': ('honeycomb', 0, 0.6), 'wurtzite': ('wurtzite', 1, 1.05)}
_C = {}


def build(case):
    if case not in _C:
        cname, chem, cut = CASES[case]
        crys = geom.get_crystal(cname)
        jn = crys.jumpnetwork(chem, cut)
        _C[case] = (crys, chem, OnsagerCalc.Interstitial(crys, chem, crys.sitelist(chem), jn))
    return _C[case]


def dipoles(case):
    def fn(src=None):
        src = src or Src()
        crys, chem, calc = build(case)
        dim = crys.dim
        name = 'dipoles:' + case
        sym = src.symbolic
        G = geom.sorted_ops(crys)
        sdip = [src.reals('P%d' % w, (dim, dim), -1, 1) for w in range(len(calc.sitelist))]
        tdip = [src.reals('PT%d' % t, (dim, dim), -1, 1) for t in range(len(calc.jumpnetwork))]
        with shim.symbolic_mode():
            out_s = calc.siteDipoles(sdip)
            out_t = calc.jumpDipoles(tdip)
        obs = []
        info = src.info(replayer='dipoles', extra={'case': case})
        tol = 1e-9

        def ob(n, val):
            obs.append(('%s:%s' % (name, n), val, dict(info, sig='dipoles:' + n.split('@')[0])))

        def rot(g, T):
            return np.dot(g.cartrot, np.dot(T, g.cartrot.T))
        for w, sites in enumerate(calc.sitelist):
            rep = sites[0]
            stab = [g for g in G if g.indexmap[chem][rep] == rep]
            S = 0.5 * (sdip[w] + sdip[w].T)
            Pref = sum((rot(g, S) for g in stab), np.zeros((dim, dim))) * (1.0 / len(stab))
            ob('site-representative@%d' % w, harness.close(np.asarray(out_s[rep], dtype=object).ravel(), np.asarray(Pref, dtype=object).ravel(), tol))
            conds = []
            for s in sites:
                for g in G:
                    if g.indexmap[chem][rep] == s:
                        conds.append(harness.close(np.asarray(out_s[s], dtype=object).ravel(), np.asarray(rot(g, Pref), dtype=object).ravel(), tol))
            ob('site-carried@%d' % w, core.And(*conds) if sym else all(conds))
        for t, jumps in enumerate(calc.jumpnetwork):
            (i0, j0), dx0 = jumps[0]
            def maps(g, i, j, dx):
                gdx = np.dot(g.cartrot, dx0)
                fwd = g.indexmap[chem][i0] == i and g.indexmap[chem][j0] == j and np.allclose(gdx, dx, atol=1e-7)
                rev = g.indexmap[chem][i0] == j and g.indexmap[chem][j0] == i and np.allclose(gdx, -dx, atol=1e-7)
                return fwd or rev
            stab = [g for g in G if maps(g, i0, j0, dx0)]
            S = 0.5 * (tdip[t] + tdip[t].T)
            Pref = sum((rot(g, S) for g in stab), np.zeros((dim, dim))) * (1.0 / len(stab))
            ob('jump-representative@%d' % t, harness.close(np.asarray(out_t[t][0], dtype=object).ravel(), np.asarray(Pref, dtype=object).ravel(), tol))
            conds = []
            for k, ((i, j), dx) in enumerate(jumps):
                for g in G:
                    if maps(g, i, j, dx):
                        conds.append(harness.close(np.asarray(out_t[t][k], dtype=object).ravel(), np.asarray(rot(g, Pref), dtype=object).ravel(), tol))
            ob('jump-carried@%d' % t, core.And(*conds) if sym else all(conds))
            ob('jump-count@%d' % t, len(out_t[t]) == len(jumps))
        if sym:
            obs.append(('twin:%s' % name, harness.close(np.asarray(out_s[0], dtype=object).ravel(), np.asarray(out_s[0], dtype=object).ravel() + 1e-6, tol)))
        return obs
    return fn


QUICK = ['hcpoct', 'bccoct', 'rumpled', 'rect2', 'mono', 'honeycomb']
THOROUGH = QUICK + ['fccint', 'wurtzite']


def sections(tier):
    S = run.Section
    return [S('dipoles:' + c, dipoles(c), budget_s=175 if tier == 'quick' else 1200, replayer='dipoles', config=c, maxpaths=4, timeout_ms=60000)
            for c in (QUICK if tier == 'quick' else THOROUGH)]


def main():
    import warnings
    warnings.simplefilter('ignore')
    if REPLAY:
        run.replay_main('C11', {'dipoles': lambda rec: harness.run_laws_concrete(dipoles(rec['extra']['case']), rec)})
    I = OnsagerCalc.Interstitial
    chk = run.Check(
        'C11',
        functions=[loader.func_hash(f) for f in (I.siteDipoles, I.jumpDipoles, I.generateSiteGroupOps, I.generateJumpGroupOps,
                                                 I.generateSiteSymmTensorBasis, I.generateJumpSymmTensorBasis, crystal.ProjectTensorBasis,
                                                 crystal.SymmTensorBasis, crystal.CombineTensorBasis, crystal.Crystal.g_tensor)],
        assumptions=[
            'decides the THIRD sentence of the property (populated dipoles are symmetric-projected on the representative and carried to every '
            'equivalent site / jump by the corresponding operation) for arbitrary non-symmetric symbolic input dipoles in [-1,1]',
            'the first two sentences (activation barrier == -dD/d(beta); elastodiffusion == strain derivative of D) are NOT decided: they need '
            'derivatives of a rational function of the rates through the bias solve; attempted in the design, not built',
            'crystals / networks enumerated (HCP and BCC octahedral/tetrahedral networks, rumpled, 2-D cells, monoclinic); equalities to 1e-9',
        ],
        explanation='Real siteDipoles/jumpDipoles on symbolic dipoles compared with an independent stabiliser-average projector carried by every '
                    'operation that maps the representative to the member (QF_LRA).',
        bounds='quick: %s; thorough: %s' % (QUICK, THOROUGH))
    chk.run(sections(chk.tier))
    chk.finish()


if __name__ == '__main__':
    main()
