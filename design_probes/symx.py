"""Prototype symbolic-execution engine (probe only)."""
import z3, time, fractions, numbers, math
import numpy as _np

class Abort(BaseException):
    pass

class Engine:
    def __init__(self, timeout_ms=20000):
        self.timeout_ms = timeout_ms
        self.nq = 0
        self.tq = 0.0
        self.reset_path([])
        self.fresh = 0

    def reset_path(self, prefix):
        self.prefix = list(prefix)
        self.decisions = []
        self.pc = []
        self.assumes = []

    def check(self, *extra):
        s = z3.Solver()
        s.set('timeout', self.timeout_ms)
        for a in self.assumes: s.add(a)
        for c in self.pc: s.add(c)
        for e in extra: s.add(e)
        t = time.time()
        r = s.check()
        self.tq += time.time() - t
        self.nq += 1
        return r, s

    def assume(self, cond):
        c = cond.z if isinstance(cond, SymBool) else (z3.BoolVal(bool(cond)))
        self.assumes.append(c)

    def branch(self, zcond):
        zc = z3.simplify(zcond)
        if z3.is_true(zc): return True
        if z3.is_false(zc): return False
        n = len(self.decisions)
        if n < len(self.prefix):
            d = self.prefix[n]
            self.decisions.append(d)
            self.pc.append(zc if d else z3.Not(zc))
            return d
        rt, _ = self.check(zc)
        rf, _ = self.check(z3.Not(zc))
        if str(rt) == 'unknown' or str(rf) == 'unknown':
            raise Abort('unknown branch')
        if str(rt) == 'sat' and str(rf) == 'sat':
            self.worklist.append(self.decisions + [False])
            self.decisions.append(True); self.pc.append(zc); return True
        if str(rt) == 'sat':
            self.decisions.append(True); self.pc.append(zc); return True
        if str(rf) == 'sat':
            self.decisions.append(False); self.pc.append(z3.Not(zc)); return False
        raise Abort('infeasible path')

    def explore(self, fn, maxpaths=2000):
        """fn() builds symbolic inputs (deterministically named), runs code, returns list of (name, SymBool/ bool) obligations"""
        self.worklist = [[]]
        results = []
        npaths = 0
        while self.worklist and npaths < maxpaths:
            prefix = self.worklist.pop()
            self.reset_path(prefix)
            self.fresh = 0
            try:
                obs = fn()
            except Abort as e:
                results.append(('abort', str(e), list(self.decisions)))
                continue
            npaths += 1
            for name, ob in obs:
                z = ob.z if isinstance(ob, SymBool) else z3.BoolVal(bool(ob))
                r, s = self.check(z3.Not(z))
                if str(r) == 'unsat':
                    results.append(('ok', name, None))
                elif str(r) == 'sat':
                    results.append(('cex', name, s.model()))
                else:
                    results.append(('unknown', name, None))
        return npaths, results

ENG = Engine()

def _toz(x, like=None):
    if isinstance(x, Sym): return x.z
    if isinstance(x, (bool, _np.bool_)): return z3.IntVal(int(x))
    if isinstance(x, (int, _np.integer)): return z3.IntVal(int(x))
    if isinstance(x, (float, _np.floating)):
        f = fractions.Fraction(float(x))
        return z3.RealVal(str(f))
    if isinstance(x, fractions.Fraction): return z3.RealVal(str(x))
    raise TypeError(type(x))

def _coerce(a, b):
    if a.sort() == b.sort(): return a, b
    if z3.is_int(a): a = z3.ToReal(a)
    if z3.is_int(b): b = z3.ToReal(b)
    return a, b

class SymBool:
    def __init__(self, z): self.z = z
    def __bool__(self): return ENG.branch(self.z)
    def __and__(self, o): return SymBool(z3.And(self.z, _tob(o)))
    __rand__ = __and__
    def __or__(self, o): return SymBool(z3.Or(self.z, _tob(o)))
    __ror__ = __or__
    def __invert__(self): return SymBool(z3.Not(self.z))
    def __eq__(self, o): return SymBool(self.z == _tob(o))
    def __ne__(self, o): return SymBool(self.z != _tob(o))
    def __hash__(self): return 0

def _tob(o):
    if isinstance(o, SymBool): return o.z
    return z3.BoolVal(bool(o))

class Sym(numbers.Number):
    pass
    def __init__(self, z): self.z = z
    @property
    def isint(self): return z3.is_int(self.z)
    def _bin(self, o, f):
        try: oz = _toz(o)
        except TypeError: return NotImplemented
        a, b = _coerce(self.z, oz)
        return Sym(z3.simplify(f(a, b)))
    def _rbin(self, o, f):
        try: oz = _toz(o)
        except TypeError: return NotImplemented
        a, b = _coerce(oz, self.z)
        return Sym(z3.simplify(f(a, b)))
    def __add__(self, o): return self._bin(o, lambda a, b: a + b)
    def __radd__(self, o): return self._rbin(o, lambda a, b: a + b)
    def __sub__(self, o): return self._bin(o, lambda a, b: a - b)
    def __rsub__(self, o): return self._rbin(o, lambda a, b: a - b)
    def __mul__(self, o):
        r = self._bin(o, lambda a, b: a * b)
        if isinstance(o, Sym) and o.z.eq(self.z): r._sq = (self, fractions.Fraction(1))
        elif hasattr(self, '_sq') and not isinstance(o, Sym) and float(o) > 0: r._sq = (self._sq[0], self._sq[1] * fractions.Fraction(float(o)))
        return r
    def __rmul__(self, o): return self._rbin(o, lambda a, b: a * b)
    def __truediv__(self, o):
        try: oz = _toz(o)
        except TypeError: return NotImplemented
        a, b = z3.ToReal(self.z) if z3.is_int(self.z) else self.z, z3.ToReal(oz) if z3.is_int(oz) else oz
        r = Sym(z3.simplify(a / b))
        if hasattr(self, '_sq') and not isinstance(o, Sym) and float(o) > 0: r._sq = (self._sq[0], self._sq[1] / fractions.Fraction(float(o)))
        return r
    def __rtruediv__(self, o):
        oz = _toz(o)
        a, b = z3.ToReal(oz) if z3.is_int(oz) else oz, z3.ToReal(self.z) if z3.is_int(self.z) else self.z
        return Sym(z3.simplify(a / b))
    def __floordiv__(self, o):
        oz = _toz(o)
        if z3.is_int(self.z) and z3.is_int(oz): return Sym(self.z / oz)  # z3 int div (floor for positive divisor)
        raise NotImplementedError
    def __mod__(self, o):
        oz = _toz(o)
        if z3.is_int(self.z) and z3.is_int(oz): return Sym(self.z % oz)
        raise NotImplementedError
    def __neg__(self): return Sym(z3.simplify(-self.z))
    def __pos__(self): return self
    def __abs__(self): return Sym(z3.If(self.z >= 0, self.z, -self.z))
    def __pow__(self, n):
        if isinstance(n, (int, _np.integer)):
            n = int(n)
            if n >= 0:
                r = Sym(z3.IntVal(1)) if self.isint else Sym(z3.RealVal(1))
                for _ in range(n): r = r * self
                return r
            return 1 / (self ** (-n))
        raise NotImplementedError
    def _cmp(self, o, f):
        try: oz = _toz(o)
        except TypeError: return NotImplemented
        a, b = _coerce(self.z, oz)
        return SymBool(f(a, b))
    def __lt__(self, o): return self._cmp(o, lambda a, b: a < b)
    def __le__(self, o): return self._cmp(o, lambda a, b: a <= b)
    def __gt__(self, o): return self._cmp(o, lambda a, b: a > b)
    def __ge__(self, o): return self._cmp(o, lambda a, b: a >= b)
    def __eq__(self, o): return self._cmp(o, lambda a, b: a == b)
    def __ne__(self, o): return self._cmp(o, lambda a, b: a != b)
    HASHTRACE = None
    def __hash__(self):
        if Sym.HASHTRACE is not None: Sym.HASHTRACE.append(self.z)
        return 0
    def __index__(self):
        return self.concretize()
    __int__ = __index__
    def concretize(self):
        zs = z3.simplify(self.z)
        if z3.is_int_value(zs): return zs.as_long()
        # case split driven by solver model
        r, s = ENG.check()
        if str(r) != 'sat': raise Abort('concretize: infeasible')
        v = s.model().eval(self.z, model_completion=True)
        if SymBool(self.z == v).__bool__():
            return v.as_long()
        # else: path continues with z != v; try again
        return self.concretize()
    def __floor__(self):
        if self.isint: return self
        return Sym(z3.ToInt(self.z))
    def floor(self): return self.__floor__()
    def rint(self):
        if self.isint: return self
        return Sym(z3.ToInt(self.z + z3.RealVal('1/2')))  # round-half-up (differs from banker's at exact .5)
    def __round__(self, n=None): return self.rint()
    def sqrt(self):
        if hasattr(self, '_sq'):
            x, c = self._sq
            r, _ = ENG.check(x.z < 0)
            if str(r) == 'unsat':
                ENG.fresh += 1
                sv = z3.Real('sqrt!%d' % ENG.fresh)
                f = math.sqrt(float(c)); lo = fractions.Fraction(f) * (1 - fractions.Fraction(1, 2**50)); hi = fractions.Fraction(f) * (1 + fractions.Fraction(1, 2**50))
                ENG.assumes.append(z3.And(sv >= z3.RealVal(str(lo)) * x.z, sv <= z3.RealVal(str(hi)) * x.z))
                return Sym(sv)
        ENG.fresh += 1
        s = z3.Real('sqrt!%d' % ENG.fresh)
        a = z3.ToReal(self.z) if self.isint else self.z
        ENG.assumes.append(z3.And(s >= 0, s * s == a))
        return Sym(s)
    def conjugate(self): return self
    @property
    def real(self): return self
    @property
    def imag(self): return 0
    def __repr__(self): return 'Sym(%s)' % self.z

def Int(name): return Sym(z3.Int(name))
def Real(name): return Sym(z3.Real(name))

def symarray(name, shape, kind='real'):
    a = _np.empty(shape, dtype=object)
    for idx in _np.ndindex(*([shape] if isinstance(shape, int) else shape)):
        nm = name + '_' + '_'.join(map(str, idx))
        a[idx] = Int(nm) if kind == 'int' else Real(nm)
    return a
