import numpy as np, z3, time
import symx
from symx import ENG, Sym, SymBool, Int, Real
from onsager import crystal, cluster, supercell
crys = crystal.Crystal(np.eye(3), [np.zeros(3)])
sup = supercell.ClusterSupercell(crys, np.array([[2,0,0],[0,2,0],[0,0,1]]))
clexp = cluster.makeclusters(crys, 1.01, 2)
jn = crys.jumpnetwork(0, 1.01)
TScl = cluster.makeTSclusters(crys, 0, jn, clexp)
n = sup.size*sup.Nmobile
print('sites', n, 'clusters', [len(c) for c in clexp], 'TS', [len(c) for c in TScl])
class NP:
    def __getattr__(self, k): return getattr(np, k)
    def zeros(self, shape, dtype=float):
        if dtype in (float, complex):
            a = np.empty(shape, dtype=object); a.fill(0); return a
        return np.zeros(shape, dtype=dtype)
    def ones(self, shape, dtype=float):
        a = np.empty(shape, dtype=object); a.fill(1); return a
    def zeros_like(self, a, dtype=None):
        if dtype in (int,): return np.zeros(np.shape(a), dtype=int)
        r = np.empty(np.shape(a), dtype=object); r.fill(0); return r
cluster.np = NP(); supercell.np = NP()
def run():
    vals = np.array([Real('v%d' % k) for k in range(len(clexp)+1)], dtype=object)
    kra = np.array([Real('kra%d' % k) for k in range(len(jn))], dtype=object)
    tsv = np.array([Real('ts%d' % k) for k in range(len(TScl))], dtype=object)
    occ = np.array([Int('o%d' % k) for k in range(n)], dtype=object)
    for o in occ: ENG.assume((o == 0) | (o == 1))
    MC = cluster.MonteCarloSampler(sup, np.zeros(0), clexp, vals, chem=0, jumpnetwork=jn, KRAvalues=kra, TSclusters=TScl, TSvalues=tsv)
    MC.start(occ.copy())
    obs = []
    ijlist, Qlist, dxlist = MC.transitions()
    E0 = MC.E()
    for (i, j), Q, dx in zip(ijlist, Qlist, dxlist):
        dE = MC.deltaE_trial((j,), (i,))
        MC.update((j,), (i,))
        E1 = MC.E()
        ij2, Q2, dx2 = MC.transitions()
        found = [m for m, ij in enumerate(ij2) if ij == (j, i) and np.allclose(np.asarray(dx2[m], dtype=float) + np.asarray(dx, dtype=float), 0)]
        obs.append(('rev-present %d-%d' % (i, j), len(found) == 1))
        if found:
            obs.append(('balance %d-%d' % (i, j), Q - Q2[found[0]] == E1 - E0))
            obs.append(('dE %d-%d' % (i, j), dE == E1 - E0))
        MC.update((i,), (j,))
    return obs
t = time.time()
npaths, res = ENG.explore(run, maxpaths=40)
from collections import Counter
print(npaths, Counter(r[0] for r in res), 'queries', ENG.nq, 'solver %.1f' % ENG.tq, 'wall %.1f' % (time.time()-t))
print([r[1] for r in res if r[0] != 'ok'][:5])
