import numpy as np, z3, time
import symx
from symx import ENG, Sym, SymBool, Int, Real
from onsager import crystal
GroupOp = crystal.GroupOp
dim = 3
def mkop(tag, nat=2):
    rot = np.empty((dim, dim), dtype=object); cart = np.empty((dim, dim), dtype=object)
    for i in range(dim):
        for j in range(dim):
            rot[i, j] = Int('%srot%d%d' % (tag, i, j)); ENG.assume((rot[i, j] >= -1) & (rot[i, j] <= 1))
            cart[i, j] = Real('%scart%d%d' % (tag, i, j))
    trans = np.array([Real('%st%d' % (tag, i)) for i in range(dim)], dtype=object)
    perm = tuple(Int('%sp%d' % (tag, k)) for k in range(nat))
    for p in perm: ENG.assume((p >= 0) & (p < nat))
    ENG.assume(perm[0] != perm[1])
    return GroupOp(rot, trans, cart, (perm,))
def eqop(a, b):
    conds = []
    for x, y in zip(a.rot.flat, b.rot.flat): conds.append((x == y).z)
    for x, y in zip(a.trans.flat, b.trans.flat): conds.append((x == y).z)
    for x, y in zip(a.cartrot.flat, b.cartrot.flat): conds.append((x == y).z)
    for pa, pb in zip(a.indexmap, b.indexmap):
        for x, y in zip(pa, pb): conds.append((x == y).z if isinstance(x, Sym) or isinstance(y, Sym) else z3.BoolVal(x == y))
    return SymBool(z3.And(*conds))
def run():
    g1, g2, g3 = mkop('a'), mkop('b'), mkop('c')
    lhs = (g1 * g2) * g3; rhs = g1 * (g2 * g3)
    obs = [('assoc', eqop(lhs, rhs))]
    # action: (g1*g2)(u) == g1(g2(u)) on unit coords
    u = np.array([Real('u%d' % i) for i in range(dim)], dtype=object)
    g12 = g1 * g2
    a1 = np.dot(g12.rot, u) + g12.trans
    a2 = np.dot(g1.rot, np.dot(g2.rot, u) + g2.trans) + g1.trans
    obs.append(('compose', SymBool(z3.And(*[(x == y).z for x, y in zip(a1, a2)]))))
    return obs
t = time.time()
npaths, res = ENG.explore(run, maxpaths=200)
from collections import Counter
print(npaths, Counter((r[0], r[1]) for r in res), 'queries', ENG.nq, 'solver %.1f' % ENG.tq, 'wall %.1f' % (time.time()-t))
