"""C04 invariance under reference choices; scaling with rates.

(a) VacancyMediated.preene2betafree on fully symbolic arrays (energies, positive prefactors, kT):
    outputs unchanged under a common energy shift of one species and its transition states, a joint
    prefactor scaling, and (kT, energies) -> (lambda kT, lambda energies).
(b) Interstitial.diffusivity executed twice on symbolic inputs: common shift, joint prefactor scaling
    leave D unchanged; multiplying every transition prefactor by lambda multiplies D by lambda."""
import sys

import numpy as np

from symx import run, loader

REPLAY = run.is_replay()
if REPLAY:
    loader.install_plain()
else:
    loader.install()

from onsager import OnsagerCalc   # noqa: E402
from symx import core, harness, contracts, shim   # noqa: E402
from symx.core import ENG, Sym   # noqa: E402
from symx.shim import SymArray   # noqa: E402
sys.path.insert(0, __file__.rsplit('/', 1)[0])
import inter   # noqa: E402

NAMES = ['V', 'S', 'SV', 'T0', 'T1', 'T2']


# ---- (a) preene2betafree ------------------------------------------------------------------
class P2B:
    def __init__(self, shape, vals=None):
        self.shape = shape
        self.vals = vals
        self.inputs = {}
        if vals is None:
            self.kT = Sym(core.z3.Real('kT'))
            ENG.assume(self.kT > 0)
            self.inputs['kT'] = self.kT
            self.ene = {n: [self._real('ene%s_%d' % (n, k)) for k in range(m)] for n, m in zip(NAMES, shape)}
            self.lpre = {n: [contracts.logvar('lpre%s_%d' % (n, k)) for k in range(m)] for n, m in zip(NAMES, shape)}
            for n in NAMES:
                for k in range(len(self.lpre[n])):
                    self.inputs['y_lpre%s_%d' % (n, k)] = Sym(ENG.logv['lpre%s_%d' % (n, k)][1])
            self.c = self._real('c')
            self.ls = contracts.logvar('ls')
            self.inputs['y_ls'] = Sym(ENG.logv['ls'][1])
            self.lam = self._real('lam')
            ENG.assume(self.lam > 0)
        else:
            self.kT = float(vals['kT'])
            self.ene = {n: [float(vals['ene%s_%d' % (n, k)]) for k in range(m)] for n, m in zip(NAMES, shape)}
            self.lpre = {n: [2 * np.log(float(vals['y_lpre%s_%d' % (n, k)])) for k in range(m)] for n, m in zip(NAMES, shape)}
            self.c = float(vals['c'])
            self.ls = 2 * np.log(float(vals['y_ls']))
            self.lam = float(vals['lam'])

    def _real(self, name):
        x = Sym(core.z3.Real(name))
        self.inputs[name] = x
        return x

    def call(self, kT=None, dene=None, dlpre=None, escale=None):
        """call the real preene2betafree with energies shifted (dene[name]), log-prefactors shifted (dlpre[name]),
        energies scaled (escale)"""
        kT = self.kT if kT is None else kT
        args = []
        for n in NAMES:
            e = [x + (dene or {}).get(n, 0) for x in self.ene[n]]
            if escale is not None:
                e = [x * escale for x in e]
            lp = [x + (dlpre or {}).get(n, 0) for x in self.lpre[n]]
            if self.vals is None:
                pre = SymArray([contracts.sym_exp(x) for x in lp])
                e = SymArray(e)
            else:
                pre = np.exp(np.array(lp, dtype=float))
                e = np.array(e, dtype=float)
            args += [pre, e]
        with shim.symbolic_mode():
            return OnsagerCalc.VacancyMediated.preene2betafree(kT, *args)


def eq_out(a, b, symbolic):
    conds = []
    for x, y in zip(a, b):
        conds.append(harness.exact_eq(x, y) if symbolic else harness.close(x, y, 1e-9))
    return core.And(*conds) if symbolic else all(conds)


def p2b(shape):
    def fn(src=None):
        vals = None if src is None else src.vals
        p = P2B(shape, vals)
        name = 'p2b:' + ''.join(map(str, shape))
        sym = vals is None
        info = {'inputs': p.inputs, 'replayer': 'p2b', 'extra': {'shape': list(shape)}}
        base = p.call()
        obs = []

        def ob(n, v):
            obs.append(('%s:%s' % (name, n), v, dict(info, sig='p2b:' + n)))
        c, ls, lam = p.c, p.ls, p.lam
        ob('vacancy-energy-shift', eq_out(base, p.call(dene={'V': c, 'T0': c, 'T1': c, 'T2': c}), sym))
        ob('solute-energy-shift', eq_out(base, p.call(dene={'S': c, 'T1': c, 'T2': c}), sym))
        ob('vacancy-prefactor-scaling', eq_out(base, p.call(dlpre={'V': ls, 'T0': ls, 'T1': ls, 'T2': ls}), sym))
        ob('solute-prefactor-scaling', eq_out(base, p.call(dlpre={'S': ls, 'T1': ls, 'T2': ls}), sym))
        ob('kT-coscaling', eq_out(base, p.call(kT=p.kT * lam, escale=lam), sym))
        # outputs are referenced to their minima
        if sym:
            ob('bFV-min-zero', core.And(core.And(*[x >= 0 for x in base[0]]), core.Or(*[x == 0 for x in base[0]])))
            ob('bFS-min-zero', core.And(core.And(*[x >= 0 for x in base[1]]), core.Or(*[x == 0 for x in base[1]])))
            obs.append(('twin:%s:shift-only-V' % name, eq_out(base, p.call(dene={'V': c}), True), {'hyp': [c.z == 1]}))
        else:
            ob('bFV-min-zero', abs(min(base[0])) < 1e-12)
            ob('bFS-min-zero', abs(min(base[1])) < 1e-12)
        return obs
    return fn


# ---- (b) interstitial ---------------------------------------------------------------------
def two_runs(calc, inp, inp2):
    D1, _ = inter.run_diffusivity(calc, inp)
    D2, _ = inter.run_diffusivity(calc, inp2)
    return D1, D2


class Derived(inter.Inputs):
    """inputs derived from another set by shifts/scalings (all through the monomial algebra)"""

    def __init__(self, base, dE=0, dT=0, sP=1, sQ=1):
        self.nw, self.nt, self.tag = base.nw, base.nt, base.tag
        self.E = [e + dE for e in base.E]
        self.T = [t + dT for t in base.T]
        self.P = [p * sP for p in base.P]
        self.Q = [q * sQ for q in base.Q]
        self.inputs = base.inputs


def interstitial(cname):
    def fn(src=None):
        crys, calc, jn = inter.get_calc(cname)
        name = 'inter:' + cname
        if src is None:
            inp = inter.Inputs(calc)
            c = contracts.logvar('c')
            s = contracts.positive('s')
            lam = contracts.positive('lam')
            inp.inputs.update({'y_c': Sym(ENG.logv['c'][1]), 'y_s': Sym(ENG.logv['s'][1]), 'y_lam': Sym(ENG.logv['lam'][1])})
            run1 = lambda i: inter.run_diffusivity(calc, i)[0]    # noqa: E731
            eq = harness.exact_eq
        else:
            v = src.vals
            inp = inter.Inputs(calc, vals=v)
            c = 2 * np.log(float(v['y_c']))
            s = float(v['y_s']) ** 2
            lam = float(v['y_lam']) ** 2

            def run1(i):
                return calc.diffusivity(*i.arrays(symbolic=False))

            def eq(a, b):
                sc = max(np.abs(np.asarray(b, dtype=float)).max(), 1e-300)
                return bool(np.abs(np.asarray(a, dtype=float) - np.asarray(b, dtype=float)).max() <= 1e-8 * sc)
        info = {'inputs': inp.inputs, 'replayer': 'inter', 'extra': {'crystal': cname}}
        if src is None:
            info['probe'] = [inter.concrete_instance(inp, k) for k in (0, 5)]
        D = run1(inp)
        obs = []

        def ob(n, v):
            obs.append(('%s:%s' % (name, n), v, dict(info, sig='inter:' + n)))
        D_shift = run1(Derived(inp, dE=c, dT=c))
        D_pref = run1(Derived(inp, sP=s, sQ=s))
        Dl = run1(Derived(inp, sQ=lam))
        if src is None:
            inter.link_runs(0, 1)
            inter.link_runs(0, 2)
            inter.link_runs(0, 3, scale=lam)
        ob('energy-shift', eq(D_shift, D))
        ob('joint-prefactor-scaling', eq(D_pref, D))
        ob('rate-scaling', eq(Dl, D * lam))
        if src is None:
            obs.append(('twin:%s:rate-scaling-squared' % name, harness.exact_eq(Dl[0, 0], D[0, 0] * lam * lam),
                        {'hyp': inter.concrete_instance(inp, fixed={'y_lam': 2}), 'timeout_ms': 20000}))
        return obs
    return fn


# ---- (c) VacancyMediated.Lij: every rate multiplied by lambda multiplies every coefficient by lambda ---------------------------
class GFabstract:
    """abstract Green-function calculator (environment): arbitrary value per (i, j, dx) query, arbitrary symmetric bare diffusivity
    and bias correction, with the contract the property needs from it: multiplying every vacancy rate by lambda divides the Green
    function by lambda, multiplies the bare diffusivity by lambda and leaves the bias correction unchanged (that the real
    calculator has this scaling is part of C10, which this family cannot reach)."""

    def __init__(self, calc, scale=None):
        self.calc, self.scale, self.Dscale = calc, scale, None
        self.g, self.D0, self.eta0 = {}, None, None

    def SetRates(self, pre, betaene, preT, betaeneT, **kw):
        dim, N = self.calc.dim, self.calc.N
        if self.D0 is None:
            self.D0 = np.empty((dim, dim), dtype=object)
            for i in range(dim):
                for j in range(i, dim):
                    self.D0[i, j] = self.D0[j, i] = Sym(core.z3.Real('GF_D_%d%d' % (i, j)))
            self.eta0 = np.array([[Sym(core.z3.Real('GF_eta_%d_%d' % (i, a))) for a in range(dim)] for i in range(N)], dtype=object)
        # (no division: the FIRST run sees the Green function lam*h and the bare diffusivity d, the second run - all rates
        # multiplied by lam - sees h and lam*d)
        self.D = (self.D0 * (self.Dscale if self.Dscale is not None else 1)).view(SymArray)
        self.eta = self.eta0.copy().view(SymArray)

    def Diffusivity(self):
        return self.D

    def biascorrection(self):
        return self.eta

    def __call__(self, i, j, dx):
        key = (int(i), int(j), tuple(float(x) for x in np.round(np.asarray(dx, dtype=float), 6)))
        if key not in self.g:
            self.g[key] = Sym(core.z3.Real('GF_g%d' % len(self.g)))
        return self.g[key] if self.scale is None else self.g[key] * self.scale


def lij_scaling(cfg, large):
    def fn(src=None):
        import C14 as hist
        calc = hist.get_calc(cfg)
        name = 'lij-scaling:%s:%s' % (cfg, 'large' if large else 'std')
        calc.clearcache()
        lom2 = 1e-300 if large else 1e300
        shapes = (('bFV', len(calc.sitelist)), ('bFS', len(calc.sitelist)), ('bFSV', calc.thermo.Nstars), ('bFT0', len(calc.om0_jn)),
                  ('bFT1', len(calc.om1_jn)), ('bFT2', len(calc.om2_jn)))
        if src is None:
            ENG.allow_hash = True
            # (the large-omega2 branch needs eigh of a lam-dependent matrix: its path is reported as out-of-model)
            calc.GFcalc_real = getattr(calc, 'GFcalc_real', calc.GFcalc)
            args = [SymArray([contracts.logvar('%s%d' % (nm, k)) for k in range(n)]) for nm, n in shapes]
            lam = contracts.positive('lam')
            loglam = contracts.sym_log(lam)
            args2 = args[:3] + [SymArray([x - loglam for x in a]) for a in args[3:]]
            inputs = {'y_' + nm: Sym(ENG.logv[nm][1]) for nm in ENG.logv}
            stub = GFabstract(calc)
            with shim.symbolic_mode():
                calc.GFcalc = stub
                stub.scale, stub.Dscale = lam, None
                L1 = calc.Lij(*args, large_om2=lom2)
                calc.clearcache()
                stub.scale, stub.Dscale = None, lam
                L2 = calc.Lij(*args2, large_om2=lom2)
            calc.GFcalc = calc.GFcalc_real
            calc.clearcache()
            eq = harness.exact_eq
        else:
            calc.GFcalc = getattr(calc, 'GFcalc_real', calc.GFcalc)
            v = src.vals

            def e(nm):
                return 2 * np.log(float(v.get('y_' + nm, 1.0)))
            args = [np.array([e('%s%d' % (nm, k)) for k in range(n)]) for nm, n in shapes]
            inputs = {}
            large_arg = 1e-300 if large else 1e300

            def eq(a, b):
                sc = max(np.abs(np.asarray(b, dtype=float)).max(), 1e-300)
                return bool(np.abs(np.asarray(a, dtype=float) - np.asarray(b, dtype=float)).max() <= 1e-7 * sc)
            L1 = calc.Lij(*args, large_om2=large_arg)
            # the obligation is for every lambda: the model's value first, then a few others at the same energies (a violation at
            # any of them is a violation of the same obligation; the lambda used is part of the reported detail)
            for lam in (float(v.get('y_lam', 1.0)) ** 2, 1e4, 1e8, 1e13, 1e-4):
                args2 = args[:3] + [a - np.log(lam) for a in args[3:]]
                L2 = calc.Lij(*args2, large_om2=large_arg)
                if not all(eq(L2[n], L1[n] * lam) for n in range(4)):
                    break
        info = {'inputs': inputs, 'replayer': 'lij', 'extra': {'cfg': cfg, 'large': large}}
        obs = []
        for n, nm in enumerate(('L0vv', 'Lss', 'Lsv', 'L1vv')):
            if src is None:
                obs.append(('%s:%s' % (name, nm), harness.rational_eq(np.asarray(L2[n], dtype=object).ravel(), (np.asarray(L1[n], dtype=object) * lam).ravel()),
                            dict(info, sig='lij-scaling:' + nm, timeout_ms=60000, standalone=True)))
            else:
                obs.append(('%s:%s' % (name, nm), eq(L2[n], L1[n] * lam), dict(info, sig='lij-scaling:' + nm)))
        if src is None:
            # (a false claim that stays refutable on the path where the code finds lam == 1, e.g. through equal cache keys)
            obs.append(('twin:%s' % name, harness.exact_eq(L2[1], L1[1] * lam * lam + 1), {'timeout_ms': 20000}))
        return obs
    return fn


SHAPES_Q = [(2, 1, 2, 2, 2, 1), (1, 2, 1, 1, 2, 2)]
SHAPES_T = SHAPES_Q + [(3, 1, 2, 2, 3, 2), (2, 2, 3, 1, 2, 1), (1, 1, 1, 1, 1, 1), (3, 3, 1, 2, 1, 2)]


def sections(tier):
    S = run.Section
    secs = []
    for sh in (SHAPES_Q if tier == 'quick' else SHAPES_T):
        secs.append(S('p2b:' + ''.join(map(str, sh)), p2b(sh), budget_s=170 if tier == 'quick' else 1500, replayer='p2b',
                      config='preene2betafree %s' % (sh,), timeout_ms=30000))
    for c in (['X1s', 'X1', 'X4r', 'X1si'] if tier == 'quick' else ['X1s', 'X1', 'X4r', 'X1si', 'X2', 'X2b', 'X3']):
        secs.append(S('inter:' + c, interstitial(c), budget_s=170 if tier == 'quick' else 1200, replayer='inter', config=c,
                      timeout_ms=60000 if tier == 'quick' else 120000))
    for cfg in (['square-1', 'sc-1'] if tier == 'quick' else ['square-1', 'sc-1', 'square-2']):
        secs.append(S('lij-scaling:%s:std' % cfg, lij_scaling(cfg, False), budget_s=170 if tier == 'quick' else 1200, replayer='lij',
                      config=cfg, timeout_ms=60000, maxpaths=32))
    return secs


def main():
    import warnings
    warnings.simplefilter('ignore')
    if REPLAY:
        run.replay_main('C04', {
            'p2b': lambda rec: harness.run_laws_concrete(p2b(tuple(rec['extra']['shape'])), rec),
            'inter': lambda rec: harness.run_laws_concrete(interstitial(rec['extra']['crystal']), rec),
            'lij': lambda rec: harness.run_laws_concrete(lij_scaling(rec['extra']['cfg'], rec['extra']['large']), rec)})
    chk = run.Check(
        'C04',
        functions=[loader.func_hash(f) for f in (OnsagerCalc.VacancyMediated.preene2betafree, OnsagerCalc.VacancyMediated.Lij, OnsagerCalc.VacancyMediated._symmetricandescaperates, OnsagerCalc.Interstitial.diffusivity,
                                                 OnsagerCalc.Interstitial.siteprob, OnsagerCalc.Interstitial.ratelist,
                                                 OnsagerCalc.Interstitial.symmratelist)],
        assumptions=[
            'floats as reals; prefactors are positive reals passed as exp(L) (monomial algebra), kT>0, lambda>0',
            'preene2betafree: array lengths enumerated (<=3 each); all entries symbolic; every np.min path explored',
            'Interstitial part on exact verification crystals only (see C02); solve/pinv contracts including their uniqueness instances (scipy solve raises on singular matrices; the Moore-Penrose inverse is unique)',
            'VacancyMediated.Lij rate scaling: the Green-function calculator is an abstract environment (arbitrary value per query, '
            'arbitrary symmetric bare diffusivity and bias correction) whose CONTRACT is the scaling G -> G/lambda, D -> lambda D, eta '
            'unchanged when every rate is multiplied by lambda (that the real calculator has it is part of C10: not decided here); '
            'energies through the monomial algebra; rational identities are decided after clearing denominators (denominators are '
            'monomials in positive variables or sums of such); the matrices inverted in the two runs are shown equal in that normal '
            'form and then share their inverse unknowns; the large-omega2 branch is out-of-model (eigh of a lambda-dependent matrix)',
            'NOT covered: invariance under intra-cell site displacement (two different crystals)',
        ],
        explanation='Real preene2betafree, Interstitial.diffusivity and VacancyMediated.Lij executed twice on symbolic inputs related by '
                    'the reference change / rate scaling; outputs compared term-wise by z3 (exact real algebra).',
        bounds='preene2betafree shapes %s (quick) / %s (thorough); interstitial on X1s, X1, X4r, X2 (+X2b, X3 thorough); Lij scaling on square-1, sc-1 (+square-2 thorough)' % (SHAPES_Q, SHAPES_T))
    chk.run(sections(chk.tier))
    chk.finish()


if __name__ == '__main__':
    main()
