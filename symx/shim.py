"""numpy proxy bound to the module-level name `np` of each onsager module (DESIGN 1.2).

With no symbolic value in sight every call is delegated to real numpy unchanged."""
import numpy as _np
import z3

from . import core, contracts
from .core import ENG, Sym, SymBool, Unsupported, has_sym, tob

SYMBOLIC = [False]   # when True, float/complex constructors return object arrays


ACTIVE = [False]     # set by loader.install(): the shimmed modules are loaded (False in replays: plain modules)


class symbolic_mode:
    def __enter__(self):
        self.prev = SYMBOLIC[0]
        SYMBOLIC[0] = ACTIVE[0]

    def __exit__(self, *a):
        SYMBOLIC[0] = self.prev


def _elementwise(a, f):
    a = _np.asarray(a)
    if a.ndim == 0:
        return f(a.item() if a.dtype != object else a[()])
    out = _np.empty(a.shape, dtype=object)
    for i in _np.ndindex(*a.shape):
        out[i] = f(a[i])
    return out.view(SymArray)


def _sqrt1(x):
    if isinstance(x, Sym):
        return x.sqrt()
    return _np.sqrt(x)


def _exp1(x):
    if isinstance(x, Sym):
        return x.exp()
    return _np.exp(x)


def _log1(x):
    if isinstance(x, Sym):
        return x.log()
    return _np.log(x)


def _abs1(x):
    return abs(x)


def _rint1(x):
    if isinstance(x, Sym):
        return x.rint()
    return _np.rint(x) if isinstance(x, (float, _np.floating)) else x


def _floor1(x):
    if isinstance(x, Sym):
        return x.floor()
    return _np.floor(x)


def _ceil1(x):
    if isinstance(x, Sym):
        return x.ceil()
    return _np.ceil(x)


def _sign1(x):
    if isinstance(x, Sym):
        one = z3.IntVal(1) if x.isint else z3.RealVal(1)
        return Sym(z3.If(x.z > 0, one, z3.If(x.z < 0, -one, one - one)))
    return _np.sign(x)


def _isclose1(a, b, rtol, atol):
    if isinstance(a, SymBool) or isinstance(b, SymBool):
        raise Unsupported('isclose on booleans')
    d = abs(a - b)
    if isinstance(b, Sym):
        bound = atol + rtol * abs(b)
    else:
        bound = atol + rtol * abs(float(b))
    r = d <= bound
    return r if isinstance(r, SymBool) else core.sb(bool(r))


_CMP = {
    _np.equal: lambda a, b: a == b,
    _np.not_equal: lambda a, b: a != b,
    _np.less: lambda a, b: a < b,
    _np.less_equal: lambda a, b: a <= b,
    _np.greater: lambda a, b: a > b,
    _np.greater_equal: lambda a, b: a >= b,
}
_UNARY = {
    _np.sqrt: _sqrt1, _np.exp: _exp1, _np.log: _log1, _np.absolute: _abs1, _np.fabs: _abs1,
    _np.rint: _rint1, _np.floor: _floor1, _np.ceil: _ceil1, _np.sign: _sign1,
    _np.conjugate: lambda x: x, _np.square: lambda x: x * x,
    _np.logical_not: lambda x: (~x if isinstance(x, SymBool) else (x == 0 if isinstance(x, Sym) else not x)),
    _np.negative: lambda x: -x, _np.positive: lambda x: x,
}
_LOGIC = {
    _np.logical_and: lambda a, b: core.And(_truth(a), _truth(b)),
    _np.logical_or: lambda a, b: core.Or(_truth(a), _truth(b)),
    _np.bitwise_and: lambda a, b: core.And(_truth(a), _truth(b)),
    _np.bitwise_or: lambda a, b: core.Or(_truth(a), _truth(b)),
}


def _truth(x):
    if isinstance(x, SymBool):
        return x
    if isinstance(x, Sym):
        return x != 0
    return core.sb(bool(x))


class SymArray(_np.ndarray):
    """dtype=object ndarray holding Sym / SymBool / numbers"""

    def __new__(cls, a):
        return _np.asarray(a, dtype=object).view(cls)

    def __array_ufunc__(self, ufunc, method, *inputs, out=None, **kwargs):
        ins = [_np.asarray(x) if isinstance(x, SymArray) else x for x in inputs]
        if method == '__call__' and out is None:
            if ufunc in _CMP and len(ins) == 2:
                f = _CMP[ufunc]
                a, b = _np.broadcast_arrays(_np.asarray(ins[0], dtype=object), _np.asarray(ins[1], dtype=object))
                res = _np.empty(a.shape, dtype=object)
                for i in _np.ndindex(*a.shape):
                    res[i] = f(a[i], b[i])
                return res.view(SymArray) if res.ndim else res[()]
            if ufunc in _LOGIC and len(ins) == 2:
                f = _LOGIC[ufunc]
                a, b = _np.broadcast_arrays(_np.asarray(ins[0], dtype=object), _np.asarray(ins[1], dtype=object))
                res = _np.empty(a.shape, dtype=object)
                for i in _np.ndindex(*a.shape):
                    res[i] = f(a[i], b[i])
                return res.view(SymArray) if res.ndim else res[()]
            if ufunc in _UNARY and len(ins) == 1:
                return _elementwise(ins[0], _UNARY[ufunc])
            if ufunc is _np.power and len(ins) == 2:
                a, b = _np.broadcast_arrays(_np.asarray(ins[0], dtype=object), _np.asarray(ins[1], dtype=object))
                res = _np.empty(a.shape, dtype=object)
                for i in _np.ndindex(*a.shape):
                    res[i] = a[i] ** b[i]
                return res.view(SymArray) if res.ndim else res[()]
        if out is not None:
            kwargs['out'] = tuple(_np.asarray(o) if isinstance(o, SymArray) else o for o in out)
        try:
            r = getattr(ufunc, method)(*ins, **kwargs)
        except (TypeError, AttributeError) as e:
            raise Unsupported('ufunc %s on symbolic array: %s' % (ufunc.__name__, e))
        if out is not None:
            return out[0] if len(out) == 1 else out
        if isinstance(r, _np.ndarray) and r.dtype == object:
            return r.view(SymArray)
        return r

    def astype(self, dtype, *a, **k):
        if dtype in (int, _np.int64, _np.int_, 'int', _np.int32):
            out = _np.empty(self.shape, dtype=object)
            for i in _np.ndindex(*self.shape):
                x = self[i]
                if isinstance(x, Sym):
                    out[i] = x.__trunc__()
                    if ENG.concretize_unique_ints and isinstance(out[i], Sym):
                        v = out[i].unique_int()
                        if v is not None:
                            out[i] = v
                elif isinstance(x, SymBool):
                    out[i] = x._num()
                else:
                    out[i] = int(x)
            return out.view(SymArray)
        if dtype == object:
            return _np.asarray(self).astype(object).view(SymArray)
        if dtype in (float, complex, _np.float64, _np.complex128):
            if has_sym(self):
                return self.copy()
            return _np.asarray(self).astype(dtype, *a, **k)
        raise Unsupported('astype(%r) on symbolic array' % (dtype,))

    def all(self, axis=None, **k):
        if axis is not None:
            raise Unsupported('all(axis)')
        return core.And(*[_truth(x) for x in self.flat])

    def any(self, axis=None, **k):
        if axis is not None:
            raise Unsupported('any(axis)')
        return core.Or(*[_truth(x) for x in self.flat])

    def round(self, decimals=0, out=None):
        if not has_sym(self):
            return _np.round(_defloat(_np.asarray(self)), decimals).astype(object).view(SymArray)
        from .loader import PROXY
        return PROXY.round(self, decimals)

    def tobytes(self, *a, **k):
        if Sym.HASHTRACE is not None:
            for x in self.flat:
                Sym.HASHTRACE.append(core.toz(x))
            return b'sym'
        return SymBytes([core.toz(x) for x in self.flat])

    def tolist(self):
        return _np.asarray(self).tolist()

    @property
    def data(self):
        return _SymData(self)

    def __reduce__(self):
        raise Unsupported('pickling a symbolic array')

    def __deepcopy__(self, memo):
        return self.copy()


class SymBytes:
    """stands for the raw bytes of symbolic numbers.  Two byte strings are equal (and hash equal) exactly when all
    their numbers are equal; hash() resolves that by forking against the byte strings hashed earlier on this path
    (accidental hash collisions of unequal byte strings are outside the model)."""

    def __init__(self, terms):
        self.terms = list(terms)

    @staticmethod
    def _decode(b):
        """real bytes met next to symbolic ones are the raw bytes of a float64 array (that is what the library
        concatenates): one number per 8 bytes, so that a concrete array and an equal-valued symbolic one agree"""
        if len(b) % 8 == 0:
            return [core.realval(float(x)) for x in _np.frombuffer(b, dtype=_np.float64)]
        return [z3.IntVal(x) for x in b]

    def __add__(self, o):
        if isinstance(o, SymBytes):
            return SymBytes(self.terms + o.terms)
        if isinstance(o, bytes):
            return SymBytes(self.terms + self._decode(o))
        return NotImplemented

    def __radd__(self, o):
        if isinstance(o, bytes):
            return SymBytes(self._decode(o) + self.terms)
        return NotImplemented

    def _same(self, o):
        if len(self.terms) != len(o.terms):
            return False
        conds = []
        for a, b in zip(self.terms, o.terms):
            a, b = core._coerce(a, b)
            conds.append(a == b)
        return bool(SymBool(z3.And(*conds))) if conds else True

    def __eq__(self, o):
        return isinstance(o, SymBytes) and self._same(o)

    def __hash__(self):
        reg = ENG.records.setdefault('symbytes', [])
        for other, hid in reg:
            if self._same(other):
                return hid
        hid = 1000003 + len(reg)
        reg.append((self, hid))
        return hid


class _SymData:
    def __init__(self, arr):
        self.arr = arr

    def tobytes(self):
        return self.arr.tobytes()


def symarray(name, shape, kind='real'):
    if isinstance(shape, int):
        shape = (shape,)
    a = _np.empty(shape, dtype=object)
    for idx in _np.ndindex(*shape):
        nm = name + '_' + '_'.join(map(str, idx))
        a[idx] = core.Int(nm) if kind == 'int' else core.Real(nm)
    return a.view(SymArray)


def wrap(r):
    if isinstance(r, _np.ndarray) and r.dtype == object and not isinstance(r, SymArray):
        return r.view(SymArray)
    if isinstance(r, tuple):
        return tuple(wrap(x) for x in r)
    if isinstance(r, list):
        return [wrap(x) for x in r]
    return r


def _defloat(x):
    """an object array that holds no symbolic value goes back to a float array before real numpy sees it"""
    if isinstance(x, _np.ndarray) and x.dtype == object and not has_sym(x):
        try:
            return _np.asarray(x.tolist() if isinstance(x, SymArray) else x, dtype=float)
        except (TypeError, ValueError):
            try:
                return _np.asarray(x.tolist(), dtype=complex)
            except (TypeError, ValueError):
                return x
    return x


_FLOATY = (float, complex, _np.float64, _np.complex128, None, 'float', 'complex')


class LinalgProxy:
    def __getattr__(self, k):
        return getattr(_np.linalg, k)

    def norm(self, x, *a, **k):
        if has_sym(x):
            if a or k:
                raise Unsupported('norm with ord/axis')
            x = _np.asarray(x, dtype=object)
            return contracts.sym_sqrt(sum(v * v for v in x.flat))
        return _np.linalg.norm(x, *a, **k)

    def inv(self, A):
        return contracts.inv(A)

    def solve(self, A, b):
        return contracts.solve(A, b)

    def pinv(self, A, *a, **k):
        if a:
            k = dict(k, rcond=a[0])
        return contracts.pinv(A, **k)

    def det(self, A):
        return contracts.det(A)

    def eigh(self, A, *a, **k):
        if has_sym(A):
            if ENG.uf_mode:
                n = _np.asarray(A).shape[0]
                w = contracts.uf_array('eigh_w', (A,), (n,))
                v = contracts.uf_array('eigh_v', (A,), (n, n))
                return w, v
            if ENG.eigh_contract:
                return contracts.eigh(A)
            raise Unsupported('eigh of symbolic matrix')
        return _np.linalg.eigh(A, *a, **k)

    def svd(self, A, *a, **k):
        if has_sym(A):
            raise Unsupported('svd of symbolic matrix')
        return _np.linalg.svd(A, *a, **k)

    def eig(self, A, *a, **k):
        if has_sym(A):
            raise Unsupported('eig of symbolic matrix')
        return _np.linalg.eig(A, *a, **k)


class NPProxy:
    """stands in for `numpy` inside an onsager module"""

    def __init__(self):
        self.linalg = LinalgProxy()

    def __getattr__(self, k):
        f = getattr(_np, k)
        if not callable(f) or isinstance(f, type):
            return f

        def call(*a, **kw):
            if not (any(has_sym(x) for x in a) or any(has_sym(x) for x in kw.values())):
                return f(*[_defloat(x) for x in a], **{k_: _defloat(v) for k_, v in kw.items()})
            try:
                r = f(*a, **kw)
            except core.Abort:
                raise
            except (TypeError, AttributeError, ValueError) as e:
                raise Unsupported('numpy.%s on symbolic data: %s' % (k, e))
            return wrap(r)
        call.__name__ = k
        return call

    # ---- constructors
    def _ctor(self, name, shape_or_like, dtype, fill):
        if SYMBOLIC[0] and dtype in _FLOATY:
            a = _np.empty(shape_or_like, dtype=object)
            a.fill(fill)
            return a.view(SymArray)
        return getattr(_np, name)(shape_or_like, **({} if dtype is None else {'dtype': dtype}))

    def zeros(self, shape, dtype=None, **k):
        return self._ctor('zeros', shape, dtype, 0.0)

    def ones(self, shape, dtype=None, **k):
        return self._ctor('ones', shape, dtype, 1.0)

    def empty(self, shape, dtype=None, **k):
        return self._ctor('empty', shape, dtype, 0.0)

    def eye(self, n, M=None, k=0, dtype=None, **kw):
        if SYMBOLIC[0] and dtype in _FLOATY:
            return _np.eye(n, M, k).astype(object).view(SymArray)
        return _np.eye(n, M, k, **({} if dtype is None else {'dtype': dtype}))

    def zeros_like(self, a, dtype=None, **k):
        if dtype in (int, _np.int64, _np.int_, bool):
            return _np.zeros(_np.shape(a), dtype=dtype)
        if (SYMBOLIC[0] and dtype in _FLOATY and _np.asarray(a).dtype.kind in 'fcO') or has_sym(a):
            r = _np.empty(_np.shape(a), dtype=object)
            r.fill(0.0)
            return r.view(SymArray)
        return _np.zeros_like(a, **({} if dtype is None else {'dtype': dtype}))

    def ones_like(self, a, dtype=None, **k):
        if dtype in (int, _np.int64, _np.int_, bool):
            return _np.ones(_np.shape(a), dtype=dtype)
        if (SYMBOLIC[0] and dtype in _FLOATY and _np.asarray(a).dtype.kind in 'fcO') or has_sym(a):
            r = _np.empty(_np.shape(a), dtype=object)
            r.fill(1.0)
            return r.view(SymArray)
        return _np.ones_like(a, **({} if dtype is None else {'dtype': dtype}))

    def array(self, obj, dtype=None, **k):
        if has_sym(obj):
            if dtype in (int, _np.int64, _np.int_):
                return SymArray(_np.array(obj, dtype=object)).astype(int)
            if isinstance(obj, _np.ndarray):
                return _np.array(obj, dtype=object, **k).view(SymArray)
            return _np.array(obj, dtype=object).view(SymArray)
        if SYMBOLIC[0] and dtype in (float, complex, _np.float64, _np.complex128):
            return _np.array(obj, dtype=dtype, **k).astype(object).view(SymArray)
        r = _np.array(obj, **({} if dtype is None else {'dtype': dtype}), **k)
        if SYMBOLIC[0] and dtype is None and r.dtype.kind == 'f' and not isinstance(obj, _np.ndarray):
            # a float array built from a Python list inside the symbolic phase may later receive symbolic entries
            return r.astype(object).view(SymArray)
        return r

    def asarray(self, obj, dtype=None, **k):
        if has_sym(obj):
            return self.array(obj, dtype)
        return _np.asarray(obj, **({} if dtype is None else {'dtype': dtype}), **k)

    def diag(self, v, k=0):
        return wrap(_np.diag(v, k))

    # ---- element-wise maths
    def sqrt(self, a):
        if has_sym(a):
            return _elementwise(a, _sqrt1) if not isinstance(a, Sym) else a.sqrt()
        return _np.sqrt(a)

    def exp(self, a):
        if has_sym(a):
            return _elementwise(a, _exp1) if not isinstance(a, Sym) else a.exp()
        return _np.exp(a)

    def log(self, a):
        if has_sym(a):
            return _elementwise(a, _log1) if not isinstance(a, Sym) else a.log()
        return _np.log(a)

    def abs(self, a):
        if has_sym(a):
            return _elementwise(a, _abs1) if not isinstance(a, Sym) else abs(a)
        return _np.abs(a)
    absolute = abs
    fabs = abs

    def round(self, a, decimals=0, out=None):
        if has_sym(a):
            if decimals != 0:
                if not isinstance(decimals, (int, _np.integer)) or decimals < 0 or decimals > 12:
                    raise Unsupported('round(decimals=%r)' % decimals)
                sc = 10 ** int(decimals)
                f = lambda x: (_rint1(x * sc) / sc) if isinstance(x, Sym) else _np.round(x, decimals)   # noqa: E731
                return _elementwise(a, f) if not isinstance(a, Sym) else f(a)
            return _elementwise(a, _rint1) if not isinstance(a, Sym) else a.rint()
        return _np.round(a, decimals)
    around = round

    def rint(self, a):
        if has_sym(a):
            return _elementwise(a, _rint1) if not isinstance(a, Sym) else a.rint()
        return _np.rint(a)

    def floor(self, a):
        if has_sym(a):
            return _elementwise(a, _floor1) if not isinstance(a, Sym) else a.floor()
        return _np.floor(a)

    def ceil(self, a):
        if has_sym(a):
            return _elementwise(a, _ceil1) if not isinstance(a, Sym) else a.ceil()
        return _np.ceil(a)

    def sign(self, a):
        if has_sym(a):
            return _elementwise(a, _sign1) if not isinstance(a, Sym) else _sign1(a)
        return _np.sign(a)

    # ---- predicates / reductions
    def all(self, a, axis=None, **k):
        if has_sym(a):
            if axis is not None:
                raise Unsupported('all(axis)')
            if isinstance(a, (Sym, SymBool)):
                return _truth(a)
            return core.And(*[_truth(x) for x in _np.asarray(a, dtype=object).flat])
        return _np.all(_defloat(a), axis=axis, **k)

    def any(self, a, axis=None, **k):
        if has_sym(a):
            if axis is not None:
                raise Unsupported('any(axis)')
            if isinstance(a, (Sym, SymBool)):
                return _truth(a)
            return core.Or(*[_truth(x) for x in _np.asarray(a, dtype=object).flat])
        return _np.any(_defloat(a), axis=axis, **k)

    def isclose(self, a, b, rtol=1e-5, atol=1e-8, **k):
        if has_sym(a) or has_sym(b) or isinstance(atol, Sym):
            aa, bb = _np.broadcast_arrays(_np.asarray(a, dtype=object), _np.asarray(b, dtype=object))
            if aa.ndim == 0:
                return _isclose1(aa[()], bb[()], rtol, atol)
            out = _np.empty(aa.shape, dtype=object)
            for i in _np.ndindex(*aa.shape):
                out[i] = _isclose1(aa[i], bb[i], rtol, atol)
            return out.view(SymArray)
        return _np.isclose(_defloat(a), _defloat(b), rtol=rtol, atol=atol, **k)

    def allclose(self, a, b, rtol=1e-5, atol=1e-8, **k):
        if has_sym(a) or has_sym(b) or isinstance(atol, Sym):
            r = self.isclose(a, b, rtol, atol)
            if isinstance(r, SymBool):
                return r
            return core.And(*[x for x in r.flat])
        return _np.allclose(_defloat(a), _defloat(b), rtol=rtol, atol=atol, **k)

    def array_equal(self, a, b, **k):
        if has_sym(a) or has_sym(b):
            a = _np.asarray(a, dtype=object)
            b = _np.asarray(b, dtype=object)
            if a.shape != b.shape:
                return False
            return core.And(*[core.sb(x == y) for x, y in zip(a.flat, b.flat)])
        return _np.array_equal(a, b, **k)

    def dot(self, a, b, out=None):
        if has_sym(a) or has_sym(b):
            return wrap(_np.dot(_np.asarray(a, dtype=object), _np.asarray(b, dtype=object)))
        return _np.dot(a, b) if out is None else _np.dot(a, b, out)

    def vdot(self, a, b):
        if has_sym(a) or has_sym(b):
            return sum(x * y for x, y in zip(_np.asarray(a, dtype=object).flat, _np.asarray(b, dtype=object).flat))
        return _np.vdot(a, b)

    def tensordot(self, a, b, axes=2):
        if has_sym(a) or has_sym(b):
            return wrap(_np.tensordot(_np.asarray(a, dtype=object), _np.asarray(b, dtype=object), axes=axes))
        return _np.tensordot(a, b, axes=axes)

    def outer(self, a, b):
        if has_sym(a) or has_sym(b):
            return wrap(_np.outer(_np.asarray(a, dtype=object), _np.asarray(b, dtype=object)))
        return _np.outer(a, b)

    def cross(self, a, b, **k):
        if has_sym(a) or has_sym(b):
            a = _np.asarray(a, dtype=object)
            b = _np.asarray(b, dtype=object)
            if a.shape == (3,) and b.shape == (3,):
                return SymArray([a[1] * b[2] - a[2] * b[1], a[2] * b[0] - a[0] * b[2], a[0] * b[1] - a[1] * b[0]])
            raise Unsupported('cross of shape %s' % (a.shape,))
        return _np.cross(a, b, **k)

    def isscalar(self, x):
        return isinstance(x, Sym) or _np.isscalar(x)

    def iscomplexobj(self, x):
        if has_sym(x):
            return False
        return _np.iscomplexobj(x)

    def isfinite(self, x):
        if has_sym(x):
            return True
        return _np.isfinite(x)
