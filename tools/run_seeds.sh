#!/bin/sh
# run_seeds.sh [seed-name ...] : apply each seeded change to /repo, run the quick check(s) of its property, undo.
# Appends results to /verif/seeded/RESULTS.tsv (seed, check, tier, exit code, wall seconds).
cd /verif
[ $# -eq 0 ] && set -- $(ls seeded | grep -v RESULTS)
for s in "$@"; do
  d=seeded/$s
  [ -f $d/patch.diff ] || continue
  prop=$(/venv/bin/python -c "import json;print(json.load(open('$d/meta.json'))['property'])")
  checks=${CHECKS:-$prop}
  if ! git -C /repo diff --quiet; then echo "/repo dirty, abort"; exit 2; fi
  git -C /repo apply $PWD/$d/patch.diff || { echo "$s: patch does not apply"; continue; }
  for c in $checks; do
    [ -f checks/$c.py ] || { echo "$s: no check $c yet"; continue; }
    t0=$(date +%s)
    ./check $c --tier ${TIER:-quick} > /tmp/seedrun_$s_$c.log 2>&1; rc=$?
    t1=$(date +%s)
    echo "$s	$c	${TIER:-quick}	exit=$rc	$((t1-t0))s	$(grep -c '^VIOLATION' /tmp/seedrun_$s_$c.log) violation-lines" | tee -a seeded/RESULTS.tsv
  done
  git -C /repo checkout -- .
done
