#!/usr/bin/env python3
"""seed_prompt.py <ID> <worktree> [avoid-text] : print the brief given to a fresh sub-agent that
writes a property-breaking change (it sees the property text and its own worktree only)."""
import json, sys
pid, wt = sys.argv[1], sys.argv[2]
avoid = sys.argv[3] if len(sys.argv) > 3 else ''
prop = None
for l in open('/verif/properties.jsonl'):
    p = json.loads(l)
    if p['id'] == pid:
        prop = p
a = prop['anchors']
mech = '\n'.join('  - %s (%s)' % (m['name'], m['where']) for m in a.get('mechanism', []))
print(f"""You are helping to evaluate a verification effort for the open-source Python library DallasTrinkle/Onsager
(transport coefficients for interstitial and vacancy-mediated diffusion; numpy-based). You have your OWN scratch git
worktree of the library at {wt} (python: /venv/bin/python, run things with PYTHONPATH={wt}; the sandbox has no network).
Work ONLY inside {wt}. Never touch /repo or /verif and do not read anything under /verif.

The library is supposed to satisfy this semantic property:

  title: {prop['title']}
  statement: {prop['statement']}
  quantified over: {prop['quantifier']['text']}
  why the existing tests cannot settle it: {prop['why_tests_cant']}
  code the property is anchored in:
{mech}
  observe at: {', '.join(a.get('observe_at', []))}

YOUR TASK: write ONE small, realistic change to the library source (under {wt}/onsager/ only; do not edit tests) that
BREAKS this property while the package still imports and the existing test suite still passes exactly as before
(baseline: 291 tests pass; test/test_PowerExpansion.py fails to import and the two testSampler_Run_jit tests fail both
before and after - that is expected and must stay the same). The change should look like a plausible slip or a
well-meant "optimisation"/refactor a maintainer could make (an off-by-one, a wrong index, a stale cache, a tolerance, a
sign in a rarely taken branch, two sites that each look fine alone ...), NOT a blatant sabotage, and it must need
something SPECIFIC to manifest - an unusual input (low-symmetry or multi-site crystal, a particular parameter regime, a
value at a boundary), a multi-step sequence of operations, a particular order of calls - rather than something ordinary
use exposes at once. {avoid}

Deliverables, all under {wt}/_seed/ :
  1. patch.diff  - `git -C {wt} diff -- onsager > _seed/patch.diff` of your change (only files under onsager/).
  2. demo.py     - a small self-contained program (run as `PYTHONPATH={wt} /venv/bin/python _seed/demo.py`) that checks
                   the property on a specific scenario using only the library's public behaviour and an independent
                   expectation (not a comparison with a saved copy of the old code); it must exit 0 on the unchanged
                   library and exit non-zero (assertion failure) with your change applied.
  3. notes.md    - what you changed, why it breaks the property, what it needs in order to manifest, what you ran.

Before you finish you MUST have verified, yourself, in {wt}:
  * demo.py exits non-zero with the patch and 0 without it (toggle ONLY with `git apply -R _seed/patch.diff` and `git apply _seed/patch.diff`; NEVER use `git stash`: all worktrees of this repository share one stash and other reviewers work next to you);
  * with the patch applied the full suite gives the same result as baseline:
      cd {wt} && PYTHONPATH={wt} /venv/bin/python -m pytest -q -p no:cacheprovider --timeout=900 --continue-on-collection-errors test 2>&1 | tail -8
    (takes 4-10 minutes; run the most relevant test files first while iterating). It must show 291 passed, 2 failed, 1 error.
Leave the patch APPLIED in the worktree when you finish. Keep the change minimal (a few lines). In your final message
report: the one-paragraph description of the change, what it needs to manifest, and the exact outputs of the three
verification commands.""")
