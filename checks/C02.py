"""C02 Interstitial diffusivity equals the exact long-time diffusivity of the jump process.

Certificate formulation (DESIGN 2.1): the real Interstitial.diffusivity runs on solver terms
for ALL site/transition energies and prefactors; its own bias solution is lifted to site space
and must satisfy the exact master-equation balance at every site, and the returned tensor must
equal the textbook expression built from that solution.  Exact algebra over QF_NRA on crystals
whose structure constants are exact dyadic rationals."""
import sys

import numpy as np

from symx import run, loader

REPLAY = run.is_replay()
if REPLAY:
    loader.install_plain()
else:
    loader.install()

from onsager import crystal, OnsagerCalc   # noqa: E402
from symx import core, harness   # noqa: E402
from symx.core import ENG   # noqa: E402
sys.path.insert(0, __file__.rsplit('/', 1)[0])
import inter   # noqa: E402


def exactness(cname, sym_pre=True):
    def fn():
        crys, calc, jn = inter.get_calc(cname)
        inp = inter.Inputs(calc, sym_pre=sym_pre)
        D, cap = inter.run_diffusivity(calc, inp)
        sq, _ = inter.code_sqrt_rho(calc, inp)
        lhs, b, Dref, rho, g, rates = inter.reference(calc, inp, cap['gamma'], sq)
        obs = []
        info = {'inputs': inp.inputs, 'replayer': 'D', 'extra': {'crystal': cname},
                'probe': [inter.concrete_instance(inp, k) for k in (0, 3, 7)] + inter.witness_instances(calc, inp)}
        for i in range(calc.N):
            for a in range(calc.dim):
                obs.append(('%s:balance-site%d-%d' % (cname, i, a), lhs[i, a] == b[i, a], dict(info, sig='balance')))
        for a in range(calc.dim):
            for c in range(calc.dim):
                obs.append(('%s:D%d%d' % (cname, a, c), D[a, c] == Dref[a, c], dict(info, sig='D')))
        # vacuity twins at a concrete instantiation of the inputs (the stub equations must be satisfiable there
        # and the perturbed obligations false)
        obs += inter.solver_conformance(cname, info, calc)
        hyp = inter.concrete_instance(inp)
        tw = {'hyp': hyp, 'timeout_ms': 20000}
        obs.append(('twin:%s:D00-perturbed' % cname, D[0, 0] == Dref[0, 0] * (1 + 1e-6), tw))
        obs.append(('twin:%s:balance-perturbed' % cname, lhs[0, 0] == b[0, 0] * (1 + 1e-6), tw))
        return obs
    return fn


# ---- concrete reference (replay + shim validation) ---------------------------------------
def numeric_reference(calc, pre, E, preT, ET):
    """long-time diffusivity of the periodic CTMC by dense linear algebra (independent of the library's algorithm)"""
    N, dim = calc.N, calc.dim
    w = np.array([pre[calc.invmap[i]] * np.exp(-E[calc.invmap[i]]) for i in range(N)])
    rho = w / w.sum()
    L = np.zeros((N, N))
    b = np.zeros((N, dim))
    D0 = np.zeros((dim, dim))
    for t, jl in enumerate(calc.jumpnetwork):
        for (i, j), dx in jl:
            W = preT[t] * np.exp(E[calc.invmap[i]] - ET[t]) / pre[calc.invmap[i]]
            L[i, j] += W
            L[i, i] -= W
            b[i] += W * dx
            D0 += 0.5 * np.outer(dx, dx) * rho[i] * W
    g = np.linalg.lstsq(L, b, rcond=None)[0]
    D = D0 + sum(rho[i] * 0.5 * (np.outer(b[i], g[i]) + np.outer(g[i], b[i])) for i in range(N))
    return D


def replay_D(rec):
    cname = rec['extra']['crystal']
    crys, calc, jn = inter.get_calc(cname)
    inp = inter.Inputs(calc, vals=rec['inputs'])
    pre, E, preT, ET = inp.arrays(symbolic=False)
    D = calc.diffusivity(pre, E, preT, ET)
    Dref = numeric_reference(calc, pre, E, preT, ET)
    err = np.abs(D - Dref).max()
    scale = max(np.abs(Dref).max(), 1e-300)
    if err > 1e-7 * scale:
        return True, 'diffusivity %s differs from the exact CTMC value %s (rel err %.2e) at E=%s T=%s pre=%s preT=%s' % (
            D.tolist(), Dref.tolist(), err / scale, list(E), list(ET), list(pre), list(preT))
    return False, 'diffusivity agrees with the exact CTMC value (rel err %.1e)' % (err / scale)


def validate(chk, names, n=3):
    """shim validation: the harness' symbolic pipeline on concrete numbers vs the real code with real numpy"""
    rng = np.random.RandomState(chk.seed)
    for cname in names:
        crys, calc, jn = inter.get_calc(cname)
        for _ in range(n):
            nw, nt = len(calc.sitelist), len(jn)
            E = rng.uniform(-1, 1, nw)
            ET = rng.uniform(1, 3, nt)
            pre = rng.uniform(0.5, 2, nw)
            preT = rng.uniform(0.5, 2, nt)
            D = calc.diffusivity(pre, E, preT, ET)
            Dref = numeric_reference(calc, pre, E, preT, ET)
            ok = np.allclose(D, Dref, rtol=1e-9, atol=1e-12)
            chk.note_concrete('numeric-reference-vs-real-code:%s' % cname, ok, 'max diff %.2e' % np.abs(D - Dref).max())
            chk.validated()


def sections(tier):
    S = run.Section
    if tier == 'quick':
        plan = [('X1s', 60000, 170), ('X1', 60000, 170), ('X2', 60000, 170), ('X4r', 60000, 170), ('X1si', 60000, 170)]
    else:
        plan = [('X1s', 120000, 1200), ('X1', 120000, 1200), ('X2', 120000, 1200), ('X2b', 120000, 1200), ('X3', 120000, 1200), ('X1si', 120000, 1200), ('X4r', 120000, 1200)]
    return [S('exact:' + c, exactness(c), timeout_ms=to, budget_s=bud, replayer='D', config=c, maxpaths=64) for c, to, bud in plan]


def main():
    import warnings
    warnings.simplefilter('ignore')
    if REPLAY:
        run.replay_main('C02', {'D': replay_D, 'stress': lambda rec: inter.stress_exactness(inter.get_calc(rec['extra']['crystal'])[1])})
    I = OnsagerCalc.Interstitial
    chk = run.Check(
        'C02',
        functions=[loader.func_hash(f) for f in (I.diffusivity, I.siteprob, I.ratelist, I.symmratelist, I.__init__,
                                                 crystal.Crystal.FullVectorBasis)],
        assumptions=[
            'floats modelled as reals; exp/log through the monomial algebra y=exp(E/2)>0 (exact); sqrt(sum of monomials) as a '
            'fresh unknown q>=0 with q^2 = Z; solve/pinv as fresh unknowns with their defining equations (stubs are part of the claim)',
            'exact verification crystals only: every structure constant (jump vectors, vector basis, VV) is an exactly representable '
            'dyadic rational (checked at run time); crystals with irrational constants (hexagonal, orbit sizes 2,3,6,8) are outside',
            'the second sentence of the property (Green-function calculator reports the same D) is outside: Taylor inversion + eigh',
            'jump network, site list and crystal are enumerated from a list (X1s, X1, X2[, X2b, X3]); all energies and prefactors symbolic',
        ],
        explanation='Real Interstitial.diffusivity executed on z3 terms with all site/transition energies and prefactors symbolic. '
                    'Obligations: (R) the code\'s bias solution, lifted to site space, satisfies the exact unsymmetrised master-equation '
                    'balance at every site with rates rebuilt by the harness independently of the library\'s rate code; (D) the '
                    'returned tensor equals 1/2 sum rho W dx dx + sum rho g (x) b.  (R)+(D) characterise the long-time diffusivity '
                    'of a periodic continuous-time Markov chain, so this proves exactness for all inputs, not self-consistency.',
        bounds='X1s (2-D p2mm, 4 classes), X1 (7 classes), X2 (2-D p1, pinv branch, 3 classes) quick; + X2b (5 classes), X3 (3-D '
               'monoclinic, 9 classes) thorough; both min(betaene) paths; per-query timeout 60 s quick / 300 s thorough')
    names = [s.config for s in sections(chk.tier)]
    for cname in names:
        crys, calc, jn = inter.get_calc(cname)
        bad = inter.constants_exact(calc)
        chk.note_concrete('constants-exact:%s' % cname, not bad, str(bad[:3]))
    validate(chk, names)
    chk.run(sections(chk.tier))
    chk.finish()


if __name__ == '__main__':
    main()
