"""Shared harness for the interstitial calculator (C02, C03, C04, C05, C11):
exact verification crystals, symbolic inputs through the monomial algebra, the code's own
bias solution captured as a certificate, and an independent site-space reference."""
from fractions import Fraction

import numpy as np

from onsager import crystal, OnsagerCalc

from symx import core, contracts, shim
from symx.core import ENG, Sym
from symx.shim import SymArray


def exact_crystals():
    a = np.array
    X = {}
    # 2-D p2mm rectangular 1 x 1.25, host at origin, mobile 4-orbit (1/8,1/4) + (1/2,1/2)
    X['X1'] = dict(lattice=a([[1., 0.], [0., 1.25]]),
                   basis=[[a([0., 0.])], [a([.125, .25]), a([.875, .25]), a([.125, .75]), a([.875, .75]), a([.5, .5])]],
                   chem=1, cutoff=0.8)
    X['X1s'] = dict(X['X1'], cutoff=0.66)
    # the same crystal with the lone site listed in the MIDDLE of the 4-orbit: Wyckoff sets interleave in index order ([[0,2,3,4],[1]])
    X['X1si'] = dict(lattice=a([[1., 0.], [0., 1.25]]),
                     basis=[[a([0., 0.])], [a([.125, .25]), a([.5, .5]), a([.875, .25]), a([.125, .75]), a([.875, .75])]],
                     chem=1, cutoff=0.66)

    # 2-D p1 oblique, two inequivalent mobile sites: no inversion centre relating... (pinv branch)
    X['X2'] = dict(lattice=a([[1., .25], [0., 1.5]]),
                   basis=[[a([0., 0.])], [a([.25, .125]), a([.625, .5])], [a([.5, .75])]],
                   chem=1, cutoff=1.0)
    X['X2b'] = dict(X['X2'], cutoff=1.05)
    # 2-D p1 with THREE inequivalent mobile sites (NV=6, pinv branch with off-diagonal coupling between vector basis functions)
    X['X5'] = dict(lattice=a([[1., .25], [0., 1.5]]),
                   basis=[[a([0., 0.])], [a([.25, .125]), a([.625, .5]), a([.5, .75])]], chem=1, cutoff=0.8)
    # 2-D p2mm with TWO 4-orbits (both Wyckoff sets carry a site vector basis; inversion present: solve branch)
    X['X4'] = dict(lattice=a([[1., 0.], [0., 1.25]]),
                   basis=[[a([0., 0.])], [a([.125, .25]), a([.875, .25]), a([.125, .75]), a([.875, .75]),
                                          a([.375, .125]), a([.625, .125]), a([.375, .875]), a([.625, .875])]],
                   chem=1, cutoff=0.7)
    # X4 restricted to three jump classes (selected by jump length) that still percolate in both directions
    X['X4r'] = dict(X['X4'], keep_lengths=(0.295, 0.4, 0.673))
    # 3-D monoclinic 2/m
    X['X3'] = dict(lattice=a([[1., 0., .25], [0., 1.25, 0.], [0., 0., 1.]]),
                   basis=[[a([0., 0., 0.])], [a([.125, .25, .375]), a([.875, .75, .625]), a([.875, .25, .625]), a([.125, .75, .375]),
                                             a([.5, .5, .5])]],
                   chem=1, cutoff=0.9)
    # 2-D p4mm square: one 4-orbit on the cell edges + the cell centre (non-abelian point group: a doubly degenerate relaxation mode)
    X['X6'] = dict(lattice=a([[1., 0.], [0., 1.]]),
                   basis=[[a([0., 0.])], [a([.25, 0.]), a([.75, 0.]), a([0., .25]), a([0., .75]), a([.5, .5])]],
                   chem=1, cutoff=0.6)
    # 2-D pm (mirror x -> -x only, no inversion): three sites in a periodic CHAIN along y with unequal hops 0.625 / 1.5 / 1.875; the cell
    # is 3 wide so that nothing connects along x: every hop is a bridge (a slow hop gives a slow relaxation mode of the chain)
    X['X7'] = dict(lattice=a([[3., 0.], [0., 4.]]),
                   basis=[[a([0., 0.])], [a([.5, .125]), a([.5, .28125]), a([.5, .65625])]], chem=1, cutoff=1.9)
    return X


_CALC = {}


def get_calc(name):
    """(crystal, Interstitial calculator, jumpnetwork) on an exact crystal; concrete phase (real numpy)"""
    if name in _CALC:
        return _CALC[name]
    spec = exact_crystals()[name]
    crys = crystal.Crystal(spec['lattice'], spec['basis'], noreduce=True)
    chem = spec['chem']
    sitelist = crys.sitelist(chem)
    jn = crys.jumpnetwork(chem, spec['cutoff'])
    if 'keep_lengths' in spec:
        jn = [jl for jl in jn if any(abs(np.sqrt(np.dot(jl[0][1], jl[0][1])) - L) < 2e-3 for L in spec['keep_lengths'])]
    jn = sorted(jn, key=lambda jl: (round(float(np.dot(jl[0][1], jl[0][1])), 9), len(jl)))
    calc = OnsagerCalc.Interstitial(crys, chem, sitelist, jn)
    _CALC[name] = (crys, calc, jn)
    return _CALC[name]


def dyadic(x, maxpow=24):
    f = Fraction(float(x))
    d = f.denominator
    return d & (d - 1) == 0 and d <= 2 ** maxpow


def constants_exact(calc):
    """every structure constant the diffusivity code uses is an exactly representable dyadic rational"""
    bad = []
    for t, jl in enumerate(calc.jumpnetwork):
        for (i, j), dx in jl:
            for c in dx:
                if not dyadic(c):
                    bad.append(('dx', t, float(c)))
    for a, va in enumerate(calc.VectorBasis):
        for c in np.asarray(va).flat:
            if not dyadic(c):
                bad.append(('VectorBasis', a, float(c)))
    for c in np.asarray(calc.VV).flat:
        if not dyadic(c):
            bad.append(('VV', float(c)))
    return bad


class Inputs:
    """symbolic (or, with vals, concrete) thermodynamic input of an Interstitial calculator"""

    def __init__(self, calc, tag='', vals=None, sym_pre=True):
        nw, nt = len(calc.sitelist), len(calc.jumpnetwork)
        self.nw, self.nt = nw, nt
        self.tag = tag
        if vals is None:
            self.E = [contracts.logvar('%sE%d' % (tag, w)) for w in range(nw)]
            self.T = [contracts.logvar('%sT%d' % (tag, t)) for t in range(nt)]
            if sym_pre:
                self.P = [contracts.positive('%sP%d' % (tag, w)) for w in range(nw)]
                self.Q = [contracts.positive('%sQ%d' % (tag, t)) for t in range(nt)]
            else:
                self.P = [1.0] * nw
                self.Q = [1.0] * nt
            self.inputs = {}
            for nm in list(ENG.logv):
                if nm.startswith(tag):
                    self.inputs['y_' + nm] = Sym(ENG.logv[nm][1])
        else:
            self.inputs = {}
            # concrete: energies from the monomial variables y = exp(E/2)
            def e(nm):
                return 2 * np.log(float(vals['y_' + nm]))
            self.E = [e('%sE%d' % (tag, w)) for w in range(nw)]
            self.T = [e('%sT%d' % (tag, t)) for t in range(nt)]
            self.P = [np.exp(e('%sP%d' % (tag, w))) if ('y_%sP%d' % (tag, w)) in vals else 1.0 for w in range(nw)]
            self.Q = [np.exp(e('%sQ%d' % (tag, t))) if ('y_%sQ%d' % (tag, t)) in vals else 1.0 for t in range(nt)]

    def arrays(self, symbolic=True):
        mk = SymArray if symbolic else (lambda l: np.array(l, dtype=float))
        return mk(list(self.P)), mk(list(self.E)), mk(list(self.Q)), mk(list(self.T))

    def yE(self, w):
        return Sym(ENG.logv['%sE%d' % (self.tag, w)][1])

    def yT(self, t):
        return Sym(ENG.logv['%sT%d' % (self.tag, t)][1])


def run_diffusivity(calc, inp, **kw):
    """run the REAL diffusivity on symbolic inputs; returns (result, gamma captured from the bias solver)"""
    cap = {}
    orig = calc.bias_solver

    def recording(omega, b):
        g = orig(omega, b)
        cap['gamma'] = g
        cap['omega_v'] = omega
        cap['bias_v'] = b
        return g
    calc.bias_solver = recording
    try:
        with shim.symbolic_mode():
            pre, be, preT, beT = inp.arrays()
            res = calc.diffusivity(pre, be, preT, beT, **kw)
    finally:
        calc.bias_solver = orig
    return res, cap


def site_weights(calc, inp):
    """unnormalised site probabilities w_i = pre_i exp(-E_i) and jump rates W_ij of the continuous-time
    Markov chain, rebuilt from the inputs independently of the library's rate code (monomials in y)"""
    N = calc.N
    w = []
    for i in range(N):
        wy = inp.yE(calc.invmap[i])
        w.append(inp.P[calc.invmap[i]] / (wy * wy))
    rates = []
    for t, jl in enumerate(calc.jumpnetwork):
        yt = inp.yT(t)
        for (i, j), dx in jl:
            yi = inp.yE(calc.invmap[i])
            W = inp.Q[t] * (yi * yi) / (yt * yt) / inp.P[calc.invmap[i]]
            rates.append((i, j, dx, W, t))
    return w, rates


def reference(calc, inp, gamma, sqrt_rho):
    """site-space certificate: lift gamma to g_i, return (balance residual pairs, D reference)"""
    N, dim = calc.N, calc.dim
    w, rates = site_weights(calc, inp)
    Z = sum(w)
    rho = [wi / Z for wi in w]
    g = np.zeros((N, dim), dtype=object)
    for a, va in enumerate(calc.VectorBasis):
        for i in range(N):
            g[i] = g[i] + gamma[a] * va[i] / sqrt_rho[i]
    lhs = np.zeros((N, dim), dtype=object)
    b = np.zeros((N, dim), dtype=object)
    D0 = np.zeros((dim, dim), dtype=object)
    for (i, j, dx, W, t) in rates:
        b[i] = b[i] + W * dx
        lhs[i] = lhs[i] + W * (g[j] - g[i])
        D0 = D0 + 0.5 * np.outer(dx, dx) * (rho[i] * W)
    Dref = D0
    for i in range(N):
        Dref = Dref + rho[i] * np.outer(g[i], b[i])   # the library's orientation: sum rho g (x) b
    return lhs, b, Dref, rho, g, rates


def code_sqrt_rho(calc, inp):
    """the library's own sqrt(rho) terms (same memoised sqrt unknown as inside diffusivity)"""
    with shim.symbolic_mode():
        pre, be, preT, beT = inp.arrays()
        rho = calc.siteprob(pre, be)
        from symx.loader import PROXY
        return PROXY.sqrt(rho), rho


def concrete_instance(inp, k=0, fixed=None):
    """hypotheses fixing every input monomial variable to a dyadic value (used by vacuity twins and probes)"""
    vals = [1.25, 0.75, 1.5, 0.875, 1.125, 2, 0.625, 1.75, 1.375, 0.5, 1.625, 1]
    hyp = []
    fixed = fixed or {}
    import math
    from fractions import Fraction as _F
    for n, (nm, y) in enumerate(sorted(inp.inputs.items())):
        v = fixed[nm] if nm in fixed else vals[(n + k) % len(vals)]
        hyp.append(y == v)
        # the log-variable behind a pinned monomial variable is pinned too (E = 2 ln y, rational enclosure): a branch of the code
        # on the energies themselves (allclose(E, E[0]) ...) must not be feasible against the pinned values
        if nm.startswith('y_') and nm[2:] in ENG.logv and not isinstance(v, (Sym,)):
            E = ENG.logv[nm[2:]][0]
            lv = 2 * math.log(float(v))
            if float(v) == 1.0:
                hyp.append(core.SymBool(E == 0))
            else:
                lo, hi = _F(lv) - _F(1, 10 ** 12), _F(lv) + _F(1, 10 ** 12)
                hyp.append(core.SymBool(core.z3.And(E >= core.z3.RealVal(str(lo)), E <= core.z3.RealVal(str(hi)))))
    return hyp


def link_runs(k_base, k_other, scale=1):
    """uniqueness instance linking the bias solve of run k_other to the one of run k_base (DESIGN 1.4): the base
    solution (divided by `scale` for pinv, where omega scales by `scale`) is offered as candidate for the other system"""
    if 'solve' in ENG.records and len(ENG.records['solve']) > max(k_base, k_other):
        contracts.unique_solve_hint(ENG.records['solve'][k_other], ENG.records['solve'][k_base][2])
    elif 'pinv' in ENG.records and len(ENG.records['pinv']) > max(k_base, k_other):
        X0 = ENG.records['pinv'][k_base][1]
        cand = X0 if (not isinstance(scale, Sym) and scale == 1) else np.asarray(X0, dtype=object) * (1 / scale)
        contracts.unique_pinv_hint(ENG.records['pinv'][k_other], cand)


def witness_instances(calc, inp):
    """point instantiations at which sqrt(Z) is rational (site weights from a Pythagorean tuple spread over the
    Wyckoff sets), with the exact values of the pinv unknowns supplied (contracts.witness_hyps): used as probes on the
    pseudo-inverse branch, where z3 cannot construct the Moore-Penrose unknowns by itself"""
    from fractions import Fraction as F
    import itertools
    nw = len(calc.sitelist)
    if 'y_P0' not in inp.inputs:
        return []
    base = {1: [F(1)], 2: [F(3, 5), F(4, 5)], 3: [F(2, 7), F(3, 7), F(6, 7)], 4: [F(1, 2)] * 4}.get(nw)
    if base is None:
        return []
    roots = [contracts._sqrt_fraction(F(1, len(w))) for w in calc.sitelist]
    if any(r is None for r in roots):
        return []
    out = []
    for k, perm in enumerate(list(itertools.permutations(range(nw)))[:3]):
        fixed = {}
        for w in range(nw):
            fixed['y_P%d' % w] = base[perm[w]] * roots[w]
            fixed['y_E%d' % w] = 1

        def mk(fixed=fixed, k=k):
            hyps = []
            vals = [1.25, 0.75, 1.5, 0.875, 1.125, 2, 0.625, 1.75, 1.375, 0.5, 1.625, 1]
            for n, (nm, y) in enumerate(sorted(inp.inputs.items())):
                v = fixed.get(nm, vals[(n + k) % len(vals)])
                hyps.append(y == (core.Sym(core.z3.RealVal(str(v))) if isinstance(v, F) else v))
            return contracts.witness_hyps(hyps)
        out.append(mk)
    return out


# ---- conformance of the bias solver with its contract -------------------------------------------------------
_VALID = {}


def solver_conformance(name, info, calc=None):
    """the pinv contract is the exact Moore-Penrose inverse; a call that passes a truncation parameter (atol / rtol / rcond) is
    outside it.  Stated as a constant obligation on this path; whether it is a violation is decided by the replay, which runs
    the real code in regimes where a truncation shows (rates small in absolute terms / spread over many decades)."""
    kw = ENG.records.get('pinv_cutoff') or []
    cut = []
    if 'pinv' in ENG.records and calc is not None:
        # contract validation: the REAL pseudo-inverse solver must behave like the contract (exact Moore-Penrose inverse) on the
        # matrices this calculator produces; checked concretely in low-rate regimes (the null space of the projected rate matrix
        # only shows as singular values at roundoff level, which a relative cutoff may or may not remove)
        if name not in _VALID:
            _VALID[name] = stress_exactness(calc, 24)
        if _VALID[name][0]:
            cut = ['real solver (truncation arguments %s) deviates from the Moore-Penrose contract: %s' % (kw, _VALID[name][1][:200])]
    elif kw:
        cut = kw
    return [('%s:bias-solver-is-exact-pseudo-inverse' % name, not cut,
             dict(info, sig='solver-exact', witnessed=True, soft=True, replayer='stress',
                  extra=dict(info.get('extra') or {}, cutoff=repr(cut))))]


def _numeric_D(calc, pre, E, preT, ET):
    N, dim = calc.N, calc.dim
    w = np.array([pre[calc.invmap[i]] * np.exp(-E[calc.invmap[i]]) for i in range(N)])
    rho = w / w.sum()
    L = np.zeros((N, N))
    b = np.zeros((N, dim))
    D0 = np.zeros((dim, dim))
    scale = 0.0
    for t, jl in enumerate(calc.jumpnetwork):
        for (i, j), dx in jl:
            W = preT[t] * np.exp(E[calc.invmap[i]] - ET[t]) / pre[calc.invmap[i]]
            scale = max(scale, W)
            L[i, j] += W
            L[i, i] -= W
            b[i] += W * dx
            D0 += 0.5 * np.outer(dx, dx) * rho[i] * W
    g = np.linalg.lstsq(L / scale, b / scale, rcond=None)[0]
    return D0 + sum(rho[i] * 0.5 * (np.outer(b[i], g[i]) + np.outer(g[i], b[i])) for i in range(N))


def stress_inputs(calc, trial):
    """deterministic inputs: site energies spread over 2 kT, barriers base + spread*u above the highest site (rates down to 1e-11
    and spread over up to 9 decades); in odd trials the first / last transition state sit at the two ends of the range"""
    rng = np.random.RandomState(100 + trial)
    nw, nt = len(calc.sitelist), len(calc.jumpnetwork)
    E = rng.uniform(0, 2, nw)
    base, spread = [(12, 4), (16, 6), (18, 6), (10, 14), (4, 20), (5, 21), (3, 19), (6, 20)][trial % 8]
    u = rng.uniform(0, 1, nt)
    if trial % 2 and nt > 1:
        k = (trial // 8) % nt
        u[k], u[(k + 1) % nt] = 0.0, 1.0
    ET = E.max() + base + spread * u
    return np.ones(nw), E, np.ones(nt), ET


def stress_exactness(calc, ntrial=24):
    for trial in range(ntrial):
        pre, E, preT, ET = stress_inputs(calc, trial)
        D = calc.diffusivity(pre, E, preT, ET)
        Dref = _numeric_D(calc, pre, E, preT, ET)
        sc = max(np.abs(Dref).max(), 1e-300)
        if np.abs(D - Dref).max() > 1e-3 * sc:
            return True, 'diffusivity %s differs from the exact value %s (rel %.2e) at E=%s ET=%s (unit prefactors)' % (
                D.tolist(), Dref.tolist(), np.abs(D - Dref).max() / sc, E.tolist(), ET.tolist())
    return False, 'diffusivity exact to 1e-3 in %d low-rate regimes' % ntrial


def stress_monotone(calc, ntrial=24):
    for trial in range(ntrial):
        pre, E, preT, ET = stress_inputs(calc, trial)
        for t in range(len(ET)):
            prev = calc.diffusivity(pre, E, preT, ET)
            for step in range(1, 13):
                ET2 = ET.copy()
                ET2[t] -= 0.5 * step
                D2 = calc.diffusivity(pre, E, preT, ET2)
                dd = D2 - prev
                sc = max(np.abs(D2).max(), 1e-300)
                if np.linalg.eigvalsh(0.5 * (dd + dd.T)).min() < -1e-3 * sc:
                    return True, 'lowering transition state %d from %g to %g DEcreases the diffusivity: %s -> %s (E=%s ET=%s)' % (
                        t, ET[t] - 0.5 * (step - 1), ET2[t], prev.tolist(), D2.tolist(), E.tolist(), ET.tolist())
                prev = D2
    return False, 'diffusivity monotone in %d low-rate regimes' % ntrial
