import numpy as np, z3, time, itertools
import symx
from symx import ENG, Sym, SymBool, Int, Real
from onsager import crystal, OnsagerCalc
sq = crystal.Crystal.FCC(1.0)
sl = sq.sitelist(0); jn = sq.jumpnetwork(0, 0.75)
d = OnsagerCalc.VacancyMediated(sq, 0, sl, jn, 1)
print({k: [len(t) for t in v] for k, v in d.tags.items()})
class NP:
    def __getattr__(self, k): return getattr(np, k)
    def zeros(self, shape, dtype=float):
        a = np.empty(shape, dtype=object); a.fill(0); return a
    def ones(self, shape, dtype=float):
        a = np.empty(shape, dtype=object); a.fill(1); return a
    def array(self, x, dtype=None, **k):
        if isinstance(x, (list, tuple)) and any(isinstance(e, Sym) for e in x): return np.array(x, dtype=object)
        return np.array(x, dtype=dtype, **k)
OnsagerCalc.np = NP()
UF = {}
def uf_scalar(name):
    def f(self):
        k = (name, z3.simplify(self.z).sexpr())
        if k not in UF: UF[k] = Sym(z3.Real('%s!%d' % (name, len(UF))))
        return UF[k]
    return f
Sym.sqrt = uf_scalar('sqrt')
classes = [(t, i) for t in d.__taglist__ for i in range(len(d.tags[t]))]
names = {'vacancy': ('preV','eneV'), 'solute': ('preS','eneS'), 'solute-vacancy': ('preSV','eneSV'), 'omega0': ('preT0','eneT0'), 'omega1': ('preT1','eneT1'), 'omega2': ('preT2','eneT2')}
def run():
    UF.clear()
    user = {}; given = {}
    for (t, i) in classes:
        m = Int('member_%s_%d' % (t, i)); ENG.assume((m >= 0) & (m < len(d.tags[t][i])))
        tag = d.tags[t][i][int(m)]          # symbolic member choice (forks)
        p, e = Real('pre_%s_%d' % (t, i)), Real('ene_%s_%d' % (t, i))
        user[tag] = (p, e); given[(t, i)] = (p, e)
    out = d.tags2preene(user)
    conds = []
    for (t, i), (p, e) in given.items():
        pn, en = names[t]
        conds.append((out[pn][i] == p).z); conds.append((out[en][i] == e).z)
    return [('dataflow', SymBool(z3.And(*conds)))]
t = time.time()
npaths, res = ENG.explore(run, maxpaths=60)
from collections import Counter
print(npaths, Counter(r[0] for r in res), 'queries', ENG.nq, 'solver %.1f' % ENG.tq, 'wall %.1f' % (time.time()-t))
