#!/usr/bin/env python3
"""inserts the output of seed_table.py between the markers in DESIGN.md"""
import subprocess, os, re
root = os.path.dirname(os.path.dirname(os.path.abspath(__file__)))
tab = subprocess.run(['python3', os.path.join(root, 'tools', 'seed_table.py')], capture_output=True, text=True).stdout
p = os.path.join(root, 'DESIGN.md')
s = open(p).read()
s = re.sub(r'<!-- seed-table-begin -->.*<!-- seed-table-end -->', '<!-- seed-table-begin -->\n' + tab + '<!-- seed-table-end -->', s, flags=re.S)
open(p, 'w').write(s)
