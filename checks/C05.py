"""C05 Rayleigh monotonicity (interstitial part): lowering one transition-state energy never
decreases the diffusivity in any direction.

Interstitial.diffusivity is executed twice on symbolic inputs, the second time with one
transition-state energy lowered by an arbitrary symbolic amount d >= 0; obligation D' - D >= 0."""
import sys

import numpy as np

from symx import run, loader

REPLAY = run.is_replay()
if REPLAY:
    loader.install_plain()
else:
    loader.install()

from onsager import OnsagerCalc   # noqa: E402
from symx import core, harness, contracts, shim   # noqa: E402
from symx.core import ENG, Sym   # noqa: E402
from symx.shim import SymArray   # noqa: E402
sys.path.insert(0, __file__.rsplit('/', 1)[0])
import inter   # noqa: E402


class Lowered(inter.Inputs):
    def __init__(self, base, t, d):
        self.nw, self.nt, self.tag = base.nw, base.nt, base.tag
        self.E = list(base.E)
        self.T = [x - d if k == t else x for k, x in enumerate(base.T)]
        self.P = list(base.P)
        self.Q = list(base.Q)
        self.inputs = base.inputs


def monotone(cname, t, sym_pre, full_to):
    def fn(src=None):
        crys, calc, jn = inter.get_calc(cname)
        name = 'mono:%s:T%d' % (cname, t)
        dim = calc.dim
        if src is None:
            inp = inter.Inputs(calc, sym_pre=sym_pre)
            d = contracts.logvar('d')
            yd = Sym(ENG.logv['d'][1])
            ENG.assume(yd >= 1)        # d >= 0: the transition state is LOWERED
            inp.inputs['y_d'] = yd
            D = inter.run_diffusivity(calc, inp)[0]
            D2 = inter.run_diffusivity(calc, Lowered(inp, t, d))[0]
        else:
            inp = inter.Inputs(calc, vals=src.vals)
            d = 2 * np.log(float(src.vals['y_d']))
            D = calc.diffusivity(*inp.arrays(symbolic=False))
            D2 = calc.diffusivity(*Lowered(inp, t, d).arrays(symbolic=False))
        info = {'inputs': inp.inputs, 'replayer': 'mono', 'extra': {'crystal': cname, 't': t, 'sym_pre': sym_pre}}
        if src is None:
            info['probe'] = [inter.concrete_instance(inp, k, fixed={'y_d': 2}) for k in (0, 4)]
        obs = []
        tol = 0 if src is None else 1e-9 * max(np.abs(np.asarray(D, dtype=float)).max(), 1e-300)

        def ob(n, v, **kw):
            obs.append(('%s:%s' % (name, n), v, dict(info, sig='mono:' + n.split('-')[0], **kw)))
        for a in range(dim):
            ob('diag-%d' % a, D2[a, a] - D[a, a] >= -tol)
        if src is not None:
            ev = np.linalg.eigvalsh(0.5 * ((D2 - D) + (D2 - D).T)).min()
            ob('quadratic-form', bool(ev >= -tol))
            return obs
        # full quadratic form: by lemma chain when symmetry makes the off-diagonal entries vanish, else directly
        for a in range(dim):
            for c in range(dim):
                if a != c:
                    obs.append(('lemma:%s:offdiag-%d%d' % (name, a, c), core.And(D[a, c] == 0, D2[a, c] == 0), {'timeout_ms': 10000}))
        v = [core.z3.Real('v%d' % a) for a in range(dim)]
        dd = [[core.z3.Real('dd_%d_%d' % (a, c)) for c in range(dim)] for a in range(dim)]
        hyps = [dd[a][a] >= 0 for a in range(dim)] + [dd[a][c] == 0 for a in range(dim) for c in range(dim) if a != c]
        quad = sum(v[a] * v[c] * dd[a][c] for a in range(dim) for c in range(dim))
        req = ['%s:diag-%d' % (name, a) for a in range(dim)] + ['lemma:%s:offdiag-%d%d' % (name, a, c) for a in range(dim) for c in range(dim) if a != c]
        obs.append(('%s:quadratic-form-chain' % name, core.z3.Implies(core.z3.And(*hyps), quad >= 0), {'requires': req, 'sig': 'mono:quadratic'}))
        if full_to:
            vs = SymArray([Sym(x) for x in v])
            vin = dict(inp.inputs)
            for a in range(dim):
                vin['v%d' % a] = vs[a]
            obs.append(('%s:quadratic-form-direct' % name, np.dot(vs, np.dot(D2 - D, vs)) >= 0,
                        dict(info, inputs=vin, sig='mono:quadratic', timeout_ms=full_to)))
        # vacuity twin: the reversed inequality is violated at a concrete instance
        obs.append(('twin:%s:reversed' % name, D2[0, 0] + D2[1, 1] <= D[0, 0] + D[1, 1],
                    {'hyp': inter.concrete_instance(inp, fixed={'y_d': 2}), 'timeout_ms': 20000}))
        return obs
    return fn


def solver_section(cname):
    """pseudo-inverse branch: one symbolic run of the diffusivity; states the conformance of the bias solver with its contract
    (exact Moore-Penrose inverse); a truncating call is decided by the replay (monotonicity in low-rate regimes)"""
    def fn(src=None):
        crys, calc, jn = inter.get_calc(cname)
        inp = inter.Inputs(calc, sym_pre=False)
        inter.run_diffusivity(calc, inp)
        info = {'inputs': inp.inputs, 'extra': {'crystal': cname}}
        obs = inter.solver_conformance('solver:' + cname, info, calc)
        return obs
    return fn


def replay(rec):
    e = rec['extra']
    return harness.run_laws_concrete(monotone(e['crystal'], e['t'], e['sym_pre'], 0), rec)


def sections(tier):
    S = run.Section
    secs = []
    if tier == 'quick':
        plan = [('X1s', False), ('X4r', False), ('X1', False)]
        to, bud, full = 60000, 170, 0
    else:
        plan = [('X1s', True), ('X4r', True), ('X1', True), ('X1si', True), ('X2', False), ('X2b', False), ('X3', False)]
        to, bud, full = 120000, 1200, 120000
    for cname, sp in plan:
        crys, calc, jn = inter.get_calc(cname)
        for t in range(len(jn)):
            secs.append(S('mono:%s:T%d' % (cname, t), monotone(cname, t, sp, full if cname in ('X2', 'X2b', 'X3') or tier != 'quick' else 0),
                          timeout_ms=to, budget_s=bud, replayer='mono', config=cname, maxpaths=16))
    for cname in (('X2',) if tier == 'quick' else ('X2', 'X5')):
        secs.append(S('solver:' + cname, solver_section(cname), timeout_ms=20000, budget_s=bud, replayer='stress', config=cname, maxpaths=8))
    return secs


def main():
    import warnings
    warnings.simplefilter('ignore')
    if REPLAY:
        run.replay_main('C05', {'mono': replay, 'stress': lambda rec: inter.stress_monotone(inter.get_calc(rec['extra']['crystal'])[1])})
    I = OnsagerCalc.Interstitial
    chk = run.Check(
        'C05',
        functions=[loader.func_hash(f) for f in (I.diffusivity, I.siteprob, I.ratelist, I.symmratelist)],
        assumptions=[
            'interstitial diffusivity only: the bare-vacancy and solute-solute coefficients and the large-omega2 regime are NOT covered '
            '(numerical Green function, eigh): a change confined to VacancyMediated.Lij is not detected by this check',
            'exact verification crystals; all site and transition energies symbolic, the lowered amount d >= 0 symbolic; prefactors '
            'fixed to 1 in the quick tier, symbolic in the thorough tier (solve branch)',
            'full quadratic form v^T(D\'-D)v >= 0: by lemma chain (diagonal inequalities + vanishing off-diagonal entries, each '
            'discharged by z3) where symmetry applies, else the direct query (may be inconclusive: reported)',
            'solve/pinv contracts as in C02',
        ],
        explanation='Two executions of the real Interstitial.diffusivity on z3 terms (one transition state lowered by a symbolic amount), '
                    'one section per jump class; monotonicity decided by z3 over all energies and all lowering amounts.',
        bounds='X1s, X4r, X1 every jump class (quick); + X2, X2b, X3 (thorough)')
    chk.run(sections(chk.tier))
    chk.finish()


if __name__ == '__main__':
    main()
