"""C36 value-type laws: GroupOp, PairState, ClusterSite, Cluster, vacancyThermoKinetics.

The real __eq__/__ne__/__hash__/arithmetic methods run on solver terms; every field is
symbolic.  The same law functions run concretely in a replay."""
import itertools
import sys

import numpy as np

from symx import run, loader

REPLAY = run.is_replay()
if REPLAY:
    loader.install_plain()
else:
    loader.install()

from onsager import crystal, crystalStars, cluster, OnsagerCalc   # noqa: E402
from symx import core, harness   # noqa: E402
from symx.core import ENG   # noqa: E402
from symx.harness import Src   # noqa: E402

PS = crystalStars.PairState
CS = cluster.ClusterSite
BOX = 8          # |float field| <= BOX
NEAR = 1e-10     # guard band: compared float fields are within NEAR ...
FAR = 1e-3       # ... or at least FAR apart (allclose threshold is <= 1e-8 + 1e-5*BOX < FAR)
RMAX = 1000


def guard(src, x, y):
    """guard band (DESIGN 1.6) between two compared float fields"""
    for p, q in zip(np.asarray(x, dtype=object).flat, np.asarray(y, dtype=object).flat):
        d = p - q
        if src.symbolic:
            ENG.assume(core.Or(core.And(d <= NEAR, d >= -NEAR), d >= FAR, d <= -FAR))


class _Foreign:
    pass


FOREIGN = _Foreign()


def eq_laws(src, a, b, c, prefix, sigprefix):
    """equivalence relation, != is the negation (and does not raise), equal => equal hash"""
    obs = []

    def ob(name, val, sig=None):
        obs.append((prefix + name, val, src.info(sig=sigprefix + (sig or name), replayer=prefix.rstrip(':'))))
    try:
        aa = bool(a == a)
        ab = bool(a == b)
        ba = bool(b == a)
        bc = bool(b == c)
        ac = bool(a == c)
    except Exception as e:   # noqa
        ob('eq-raises', False, 'eq-raises:' + type(e).__name__)
        return obs
    ob('reflexive', aa)
    ob('symmetric', ab == ba)
    ob('transitive', (not (ab and bc)) or ac)
    try:
        ne = bool(a != b)
        ob('ne-is-negation', ne == (not ab))
    except Exception as e:   # noqa
        ob('ne-raises', False, 'ne-raises:' + type(e).__name__)
    # operands of another type: never equal, != is still the negation, neither raises (both operand orders)
    for k, f in enumerate((None, 0, 'x', (1, 2), [a], FOREIGN)):
        try:
            r = [bool(a == f), bool(a != f), bool(f == a), bool(f != a)]
            ob('foreign-operand@%d' % k, r == [False, True, False, True], 'foreign-operand')
        except Exception as e:   # noqa
            ob('foreign-operand-raises@%d' % k, False, 'foreign-raises:' + type(e).__name__)
    if ab:
        ob('equal-implies-equal-hash', harness.hash_equal(a, b, src.symbolic))
    else:
        # vacuity twin: on the unequal path the hash traces may differ
        if src.symbolic:
            obs.append(('twin:' + prefix + 'hash-differs', harness.hash_equal(a, b, True)))
    return obs


# ---- PairState ------------------------------------------------------------------------
def mk_ps(src, tag, dim, nonneg=True):
    i = src.int(tag + 'i', 0 if nonneg else -1, 5)
    j = src.int(tag + 'j', 0 if nonneg else -1, 5)
    R = src.ints(tag + 'R', dim, -RMAX, RMAX)
    dx = src.reals(tag + 'dx', dim, -BOX, BOX)
    return PS(i=i, j=j, R=R, dx=dx)


def ps_eq(dim):
    def fn(src=None):
        src = src or Src()
        a, b, c = (mk_ps(src, t, dim, nonneg=False) for t in 'abc')
        return eq_laws(src, a, b, c, 'ps_eq%d:' % dim, 'PairState:')
    return fn


def ps_arith(dim):
    def fn(src=None):
        src = src or Src()
        name = 'ps_arith%d' % dim
        a, b = mk_ps(src, 'a', dim), mk_ps(src, 'b', dim)
        obs = []

        def ob(n, v):
            obs.append(('%s:%s' % (name, n), v, src.info(sig='PairState:' + n, replayer=name)))

        def same(x, y):
            # equal as states and equal displacement (exact in the real-number model; 1e-9 in replay)
            e = bool(x == y)
            return e and (harness.exact_eq(x.dx, y.dx) if src.symbolic else harness.close(x.dx, y.dx, 1e-9))
        ob('neg-neg', same(-(-a), a))
        z = a + (-a)
        ob('a+(-a)-iszero', bool(z.iszero()))
        z2 = (-a) + a
        ob('(-a)+a-iszero', bool(z2.iszero()))
        zero = PS.zero(-1, dim)
        ob('zero+a', same(zero + a, a))
        ob('a+zero', same(a + zero, a))
        if bool(a.j == b.j):
            ob('(a-b)+b', same((a - b) + b, a))
            ob('(b-a)+a', same((b - a) + a, b))
            d = a - b
            ob('a-b-endpoints', bool(d.i == a.i) and bool(d.j == b.i))
        else:
            try:
                a - b
                ob('a-b-mismatch-raises', False)
            except ArithmeticError:
                ob('a-b-mismatch-raises', True)
        if bool(a.i == b.i):
            ob('b+(a^b)', same(b + (a ^ b), a))
            ob('a+(b^a)', same(a + (b ^ a), b))
        else:
            try:
                a ^ b
                ob('a^b-mismatch-raises', False)
            except ArithmeticError:
                ob('a^b-mismatch-raises', True)
        if bool(a.j == b.i):
            s = a + b
            ob('add-endpoints', bool(s.i == a.i) and bool(s.j == b.j) and harness.exact_eq(s.R, a.R + b.R))
            ob('neg-of-sum', same(-(a + b), (-b) + (-a)))
            if src.symbolic:
                obs.append(('twin:%s:sum-R' % name, harness.exact_eq(s.R, a.R + b.R + 1)))
        return obs
    return fn


CRYSTALS = {}


def crystals():
    if CRYSTALS:
        return CRYSTALS
    CRYSTALS['hcp'] = (crystal.Crystal.HCP(1.0, chemistry='Mg'), 0)
    CRYSTALS['rect2'] = (crystal.Crystal(np.array([[1., 0.], [0., 1.25]]),
                                         [[np.array([0., 0.]), np.array([0.5, 0.5])], [np.array([0.25, 0.5])]]), 0)
    CRYSTALS['b2'] = (crystal.Crystal(np.eye(3), [[np.zeros(3)], [np.array([0.5, 0.5, 0.5])]]), 1)
    return CRYSTALS


def ps_g(cname, gsel):
    """pair-state arithmetic commutes with every listed group operation"""
    def fn(src=None):
        src = src or Src()
        crys, chem = crystals()[cname]
        name = 'ps_g:%s:%s' % (cname, gsel)
        dim = crys.dim
        N = len(crys.basis[chem])
        G = sorted(crys.G, key=lambda g: (g.rot.tolist(), np.round(g.trans, 6).tolist()))
        G = G[gsel::4]
        ai, aj, bj = src.int('ai', 0, N - 1), src.int('aj', 0, N - 1), src.int('bj', 0, N - 1)
        aR = src.ints('aR', dim, -RMAX, RMAX)
        bR = src.ints('bR', dim, -RMAX, RMAX)
        # concretise the site indices first (they index concrete tables): solver-driven case split
        ai, aj, bj = int(ai), int(aj), int(bj)
        a = PS.fromcrys_latt(crys, chem, (ai, aj), aR)
        b = PS.fromcrys_latt(crys, chem, (aj, bj), bR)
        c = PS.fromcrys_latt(crys, chem, (ai, bj), bR)    # same initial site as a
        obs = []
        tol = 1e-6

        def same(x, y):
            return bool(x == y) and harness.close(x.dx, y.dx, tol)
        for gi, g in enumerate(G):
            def ob(n, v):
                obs.append(('%s:g%d:%s' % (name, gi, n), v, src.info(sig='PairState.g:' + n, replayer='ps_g',
                                                                     extra={'crystal': cname, 'gsel': gsel})))
            ga, gb, gc = a.g(crys, chem, g), b.g(crys, chem, g), c.g(crys, chem, g)
            ob('g(a+b)', same((a + b).g(crys, chem, g), ga + gb))
            ob('g(-a)', same((-a).g(crys, chem, g), -ga))
            ob('g(a^c)', same((a ^ c).g(crys, chem, g), ga ^ gc))
            ob('sane', harness.close(ga.dx, np.dot(crys.lattice, ga.R + crys.basis[chem][ga.j] - crys.basis[chem][ga.i]), tol))
            if src.symbolic and gi == 0:
                obs.append(('twin:%s:g(a)==a' % name, harness.exact_eq(ga.R, a.R + 1)))
        return obs
    return fn


# ---- ClusterSite ----------------------------------------------------------------------
def mk_cs(src, tag, dim):
    ci = (src.int(tag + 'c', 0, 3), src.int(tag + 'i', 0, 5))
    R = src.ints(tag + 'R', dim, -RMAX, RMAX)
    return CS(ci=ci, R=R)


def cs_laws(dim):
    def fn(src=None):
        src = src or Src()
        name = 'cs%d' % dim
        a, b, c = (mk_cs(src, t, dim) for t in 'abc')
        obs = eq_laws(src, a, b, c, name + ':', 'ClusterSite:')
        v = src.ints('v', dim, -RMAX, RMAX)

        def ob(n, val):
            obs.append(('%s:%s' % (name, n), val, src.info(sig='ClusterSite:' + n, replayer=name)))
        ob('(a+v)-v', bool(((a + v) - v) == a))
        ob('neg-neg', bool((-(-a)) == a))
        ob('add-R', harness.exact_eq((a + v).R, a.R + v) and bool((a + v).ci == a.ci))
        ob('sub-R', harness.exact_eq((a - v).R, a.R - v))
        if src.symbolic:
            obs.append(('twin:%s:a+v==a' % name, harness.exact_eq((a + v).R, a.R)))
        return obs
    return fn


# ---- GroupOp --------------------------------------------------------------------------
def mk_gop(src, tag, dim, nat):
    rot = src.ints(tag + 'rot', (dim, dim), -2, 2)
    trans = src.reals(tag + 'tr', dim, -BOX, BOX)
    cart = src.reals(tag + 'cr', (dim, dim), -BOX, BOX)
    imap = (tuple(src.int('%sm%d' % (tag, k), 0, nat - 1) for k in range(nat)),)
    return crystal.GroupOp(rot, trans, cart, imap)


def gop_eq(dim, nat):
    def fn(src=None):
        src = src or Src()
        a, b, c = (mk_gop(src, t, dim, nat) for t in 'abc')
        for x, y in ((a, b), (b, c), (a, c)):
            guard(src, x.trans, y.trans)
            guard(src, x.cartrot, y.cartrot)
        return eq_laws(src, a, b, c, 'gop_eq%d:' % dim, 'GroupOp:')
    return fn


# ---- vacancyThermoKinetics ------------------------------------------------------------
def mk_vtk(src, tag, n, nt):
    return OnsagerCalc.vacancyThermoKinetics(pre=src.reals(tag + 'pre', n, 0.125, BOX),
                                             betaene=src.reals(tag + 'ene', n, -BOX, BOX),
                                             preT=src.reals(tag + 'preT', nt, 0.125, BOX),
                                             betaeneT=src.reals(tag + 'eneT', nt, -BOX, BOX))


def vtk_eq(n, nt):
    def fn(src=None):
        src = src or Src()
        a, b, c = (mk_vtk(src, t, n, nt) for t in 'abc')
        for x, y in ((a, b), (b, c), (a, c)):
            for f in range(4):
                guard(src, x[f], y[f])
        return eq_laws(src, a, b, c, 'vtk_eq%d%d:' % (n, nt), 'vacancyThermoKinetics:')
    return fn


# ---- Cluster --------------------------------------------------------------------------
CI_CHOICES = [(0, 0), (0, 1), (1, 0)]


def cluster_laws(nsites, kind, cis):
    """equality and hash are invariant under a common translation and a reordering of the
    non-special sites; symbolic lattice vectors and translation, every permutation"""
    transition = kind in ('ts', 'tsvac')
    vacancy = kind in ('vac', 'tsvac')
    nspecial = 2 if transition else (1 if vacancy else 0)

    def fn(src=None):
        src = src or Src()
        name = 'cluster:%s:%d:%s' % (kind, nsites, ''.join('%d%d' % ci for ci in cis))
        dim = 3
        Rs = [src.ints('R%d' % k, dim, -20, 20) for k in range(nsites)]
        T = src.ints('T', dim, -20, 20)
        sites = [CS(ci=cis[k], R=Rs[k]) for k in range(nsites)]
        obs = []
        extra = {'kind': kind, 'nsites': nsites, 'cis': [list(ci) for ci in cis]}

        def ob(n, val):
            obs.append(('%s:%s' % (name, n), val, src.info(sig='Cluster:' + n, replayer='cluster', extra=extra)))
        ENG.allow_hash = True    # Cluster's equality map: concrete (chem,index) keys -> sets of all-symbolic tuples
        cl = cluster.Cluster(sites, transition=transition, vacancy=vacancy)
        for pi, perm in enumerate(itertools.permutations(range(nspecial, nsites))):
            order = list(range(nspecial)) + list(perm)
            sites2 = [sites[k] + T for k in order]
            cl2 = cluster.Cluster(sites2, transition=transition, vacancy=vacancy)
            e = bool(cl == cl2)
            ob('perm%d-equal' % pi, e)
            ob('perm%d-equal-sym' % pi, bool(cl2 == cl))
            ob('perm%d-hash' % pi, cluster_hash_equal(cl, cl2, src.symbolic, nspecial))
            ob('perm%d-ne' % pi, not bool(cl != cl2))
        # a cluster with one site moved is different (when the move is not a symmetry of the set)
        moved = [sites[k] for k in range(nsites)]
        moved[-1] = moved[-1] + np.array([1, 0, 0])
        cl3 = cluster.Cluster(moved, transition=transition, vacancy=vacancy)
        if nsites >= 2:
            ob('moved-differs', not bool(cl == cl3))
        if src.symbolic:
            obs.append(('twin:%s:moved-equal' % name, bool(cl == cl3) if nsites >= 2 else False))
        # membership: each (non-vacancy) site of the cluster, translated back, is "in" the cluster
        for k in range(nspecial if vacancy else 0, nsites):
            ob('contains%d' % k, bool((sites[k] - cl_R0(sites, transition, vacancy)) in cl))
        if transition:
            s0, s1 = cl.transitionstate()
            ob('istransition', bool(cl.istransition(s0 + T, s1 + T)))
        if transition and not vacancy:
            # a transition cluster without vacancy is direction-agnostic: reversed end points give an equal cluster
            rev = cluster.Cluster([sites[1] + T, sites[0] + T] + [sites[k] + T for k in range(2, nsites)], transition=True)
            ob('reversed-equal', bool(cl == rev) and bool(rev == cl) and not bool(cl != rev))
        # the REAL cached hashes (the symbolic obligations above re-derive the hash keys from the documented scheme): evaluated
        # at one concrete point of this path, taken from a solver model of the path condition
        if src.symbolic:
            r, sv = ENG.check()
            if r == 'sat':
                m = sv.model()

                def val(x):
                    v = m.eval(core.toz(x), model_completion=True)
                    return int(v.as_long())
                cR = [np.array([val(x) for x in Rk]) for Rk in Rs]
                cT = np.array([val(x) for x in T])
                csites = [CS(ci=cis[k], R=cR[k]) for k in range(nsites)]
                c0 = cluster.Cluster(csites, transition=transition, vacancy=vacancy)
                pairs = []
                for perm in itertools.permutations(range(nspecial, nsites)):
                    order = list(range(nspecial)) + list(perm)
                    pairs.append(cluster.Cluster([csites[k] + cT for k in order], transition=transition, vacancy=vacancy))
                if transition and not vacancy:
                    pairs.append(cluster.Cluster([csites[1] + cT, csites[0] + cT] + [csites[k] + cT for k in range(2, nsites)], transition=True))
                ob('real-hash-at-path-point', all((c0 != c2) or hash(c0) == hash(c2) for c2 in pairs))
        else:
            pairs = [cluster.Cluster([sites[k] + T for k in list(range(nspecial)) + list(perm)], transition=transition, vacancy=vacancy)
                     for perm in itertools.permutations(range(nspecial, nsites))]
            if transition and not vacancy:
                pairs.append(cluster.Cluster([sites[1] + T, sites[0] + T] + [sites[k] + T for k in range(2, nsites)], transition=True))
            ob('real-hash-at-path-point', all((cl != c2) or hash(cl) == hash(c2) for c2 in pairs))
        return obs
    return fn


def cl_R0(sites, transition, vacancy):
    """reference lattice vector the constructor subtracts (its first site after sorting)"""
    def sortkey(cs):
        return cs.ci[0] * (2 ** 32) + cs.ci[1]
    lis = list(sites)
    if transition:
        lis = lis[0:2] + sorted(lis[2:], key=sortkey)
    elif vacancy:
        lis = lis[0:1] + sorted(lis[1:], key=sortkey)
    else:
        lis.sort(key=sortkey)
    return lis[0].R


def cluster_hash_equal(c1, c2, symbolic, nspecial):
    if not symbolic:
        return hash(c1) == hash(c2)
    # the cached hash is an XOR over sites of hash(r + shiftpos): equal iff the multisets of
    # (r, shiftpos) agree.  Recompute the per-site keys through the object's own __shift_pos__.
    def keys(c):
        out = []
        nvac = (2 if c.__dict__['__transition__'] else 1) if c.__dict__['__vacancy__'] else 0
        for i, cs in enumerate(c.sites):
            r = cs.ci
            if i < nvac:
                r = r + ((-1,) if i == 0 else (r[0],))
            out.append((r, c.__shift_pos__(cs)))
        return out
    k1, k2 = keys(c1), keys(c2)
    if len(k1) != len(k2):
        return False
    alts = []
    for perm in itertools.permutations(range(len(k2))):
        conj = []
        okp = True
        for i, p in enumerate(perm):
            if k1[i][0] != k2[p][0]:
                okp = False
                break
            conj.extend(x == y for x, y in zip(k1[i][1], k2[p][1]))
        if okp:
            alts.append(core.And(*conj))
    return core.Or(*alts) if alts else False


# ---- registry -------------------------------------------------------------------------
def sections(tier):
    S = run.Section
    secs = []
    dims = (2, 3)
    for d in dims:
        secs.append(S('ps_eq%d' % d, ps_eq(d), maxpaths=4000, budget_s=200))
        secs.append(S('ps_arith%d' % d, ps_arith(d), maxpaths=4000, budget_s=200))
        secs.append(S('cs%d' % d, cs_laws(d), maxpaths=4000, budget_s=200))
        secs.append(S('gop_eq%d' % d, gop_eq(d, 2 if tier == 'quick' else 3), maxpaths=6000, budget_s=300))
    secs.append(S('vtk_eq11', vtk_eq(1, 1), maxpaths=4000, budget_s=200))
    if tier == 'thorough':
        secs.append(S('vtk_eq22', vtk_eq(2, 2), maxpaths=8000, budget_s=600))
    for cname in (('hcp',) if tier == 'quick' else ('hcp', 'rect2', 'b2')):
        for gsel in range(4):
            secs.append(S('ps_g:%s:%d' % (cname, gsel), ps_g(cname, gsel), maxpaths=400, budget_s=300, replayer='ps_g'))
    kinds = [('plain', 2, [(0, 0), (0, 0)]), ('plain', 3, [(0, 0), (0, 1), (0, 0)]),
             ('vac', 2, [(0, 0), (0, 0)]), ('ts', 3, [(0, 0), (0, 0), (0, 0)]), ('ts', 3, [(0, 0), (0, 1), (0, 0)]),
             ('ts', 2, [(0, 1), (0, 0)])]
    if tier == 'thorough':
        kinds += [('plain', 3, [(0, 0), (0, 0), (0, 0)]), ('plain', 3, [(1, 0), (0, 1), (0, 0)]),
                  ('vac', 3, [(0, 0), (0, 0), (0, 1)]), ('tsvac', 3, [(0, 0), (0, 0), (0, 1)]),
                  ('ts', 4, [(0, 0), (0, 1), (0, 0), (0, 0)]), ('plain', 4, [(0, 0), (0, 0), (0, 1), (0, 0)])]
    for kind, n, cis in kinds:
        secs.append(S('cluster:%s:%d:%s' % (kind, n, ''.join('%d%d' % tuple(ci) for ci in cis)),
                      cluster_laws(n, kind, [tuple(ci) for ci in cis]), maxpaths=3000, budget_s=400,
                      replayer='cluster'))
    return secs


def _replayers():
    R = {}
    for d in (2, 3):
        R['ps_eq%d' % d] = lambda rec, d=d: harness.run_laws_concrete(ps_eq(d), rec)
        R['ps_arith%d' % d] = lambda rec, d=d: harness.run_laws_concrete(ps_arith(d), rec)
        R['cs%d' % d] = lambda rec, d=d: harness.run_laws_concrete(cs_laws(d), rec)
        for nat in (2, 3):
            pass
        R['gop_eq%d' % d] = lambda rec, d=d: harness.run_laws_concrete(
            gop_eq(d, 1 + max(int(k[2:]) for k in rec['inputs'] if k.startswith('am'))), rec)
    R['vtk_eq11'] = lambda rec: harness.run_laws_concrete(vtk_eq(1, 1), rec)
    R['vtk_eq22'] = lambda rec: harness.run_laws_concrete(vtk_eq(2, 2), rec)
    R['ps_g'] = lambda rec: harness.run_laws_concrete(ps_g(rec['extra']['crystal'], rec['extra']['gsel']), rec)
    R['cluster'] = lambda rec: harness.run_laws_concrete(
        cluster_laws(rec['extra']['nsites'], rec['extra']['kind'], [tuple(c) for c in rec['extra']['cis']]), rec)
    return R


def main():
    if REPLAY:
        run.replay_main('C36', _replayers())
    chk = run.Check(
        'C36',
        functions=[loader.func_hash(f) for f in (
            crystal.GroupOp.__eq__, crystal.GroupOp.__ne__, crystal.GroupOp.__hash__,
            PS.__eq__, PS.__ne__, PS.__hash__, PS.__add__, PS.__neg__, PS.__sub__, PS.__xor__, PS.g, PS.iszero,
            CS.__eq__, CS.__ne__, CS.__hash__, CS.__add__, CS.__sub__, CS.__neg__,
            cluster.Cluster.__init__, cluster.Cluster.__eq__, cluster.Cluster.__hash__, cluster.Cluster.__contains__,
            cluster.Cluster.istransition,
            OnsagerCalc.vacancyThermoKinetics.__eq__, OnsagerCalc.vacancyThermoKinetics.__ne__,
            OnsagerCalc.vacancyThermoKinetics.__hash__)],
        assumptions=[
            'floats are modelled as reals (no rounding)',
            'guard band: any two float fields compared by allclose are within %g or at least %g apart; |float field| <= %d'
            % (NEAR, FAR, BOX),
            'integer fields bounded: |R_k| <= %d (pair states / cluster sites), rot entries in [-2,2], site indices 0..5' % RMAX,
            'hash equality is decided as point-wise equality of the term sequences that reach hash(); for Cluster as '
            'multiset equality of the per-site (r, shiftpos) keys that are XOR-combined',
            'pair-state identities assume non-negative site indices except the documented zero(-1) state',
        ],
        explanation='Real __eq__/__ne__/__hash__/arithmetic methods of the five value types executed on z3 terms '
                    '(all fields symbolic), every solver-feasible path explored; laws asserted per path and decided by z3.',
        bounds='dims 2 and 3; GroupOp with 2 (quick) / 3 (thorough) atoms; vTK arrays of length 1 (quick) and 2 (thorough); '
               'clusters of 2-4 sites in 3D, all permutations of non-special sites, symbolic translation |T_k|<=20; '
               'symmetry commutation on HCP (quick) + rect2, B2 (thorough), every group operation.')
    chk.run(sections(chk.tier))
    chk.finish()


if __name__ == '__main__':
    main()
