#!/usr/bin/env python3
"""Regenerates /verif/MANIFEST.json from the table below (single source of truth)."""
import json
import os

HERE = os.path.dirname(os.path.dirname(os.path.abspath(__file__)))

ENGINE = 'symx'
TECH = 'solver-based symbolic execution of the real Python code on z3 terms (own engine symx: fork on symbolic branches, ' \
       'contracts for LAPACK/exp/sqrt, counterexamples replayed on the untouched code)'

# id -> dict(text, note, design_ref, technique)
CLAIMED = {}

NA = {}


def claim(pid, text, note, ref, technique=TECH):
    CLAIMED[pid] = dict(text=text, note=note, ref=ref, technique=technique)


def na(pid, reason):
    NA[pid] = reason


# ---------------------------------------------------------------------------------------------
claim('C36',
      'Bounded symbolic verification: the real __eq__/__ne__/__hash__ and arithmetic methods of GroupOp, PairState, '
      'ClusterSite, Cluster and vacancyThermoKinetics are executed on z3 terms with every field symbolic; on every '
      'solver-feasible path the laws (equivalence relation, != is the negation and does not raise, equal => equal hash, '
      'documented pair-state identities, commutation with every group operation of the listed crystals, cluster identity '
      'under translation and every reordering of non-special sites) are decided by z3 for all values within the bounds.',
      'Floats modelled as reals; guard band around the allclose thresholds (fields within 1e-10 or >= 1e-3 apart, |x|<=8); '
      'integer fields bounded (|R|<=1000); dims 2,3; <=3 atoms; clusters <=4 sites; hash equality decided on the term '
      'sequences reaching hash(). One known finding (vTK hash vs allclose equality) listed in known_findings.json.',
      'DESIGN.md 3/C36')

claim('C28',
      'Bounded symbolic verification by inductive step: from ANY state (occupation vector, order inside each per-species list, '
      'count shape) satisfying the representation invariant, one real Supercell operation (setocc, __setitem__, reorder, '
      '__imul__/__mul__, fillperiodic, copy, POSCAR->POSCAR_occ) with symbolic arguments (species index an arbitrary integer, site index in '
      '[-n, n-1], number of per-species maps handed to reorder) '
      'is executed on z3 terms; post-state = invariant + functional specification, decided by z3 on every feasible path. '
      'Because the invariant is inductive this covers edit histories of any length on the listed supercells.',
      'Supercells enumerated (2-4 sites, Nsolute 0..2, with/without interstitial sublattice); |c| <= 10^6 (int64 wrap outside); '
      'POSCAR text is concrete per path (ordering case-split by the solver); group operations enumerated from the supercell group. '
      'Three defects found and fixed (setocc range check; negative site index; short reorder mapping: see known_findings.json).',
      'DESIGN.md 3/C28, 2.2')

claim('C23',
      'Bounded symbolic verification: the real conversion routines (pos2cart, unit2cart, cart2unit, cart2pos, incell, inhalf) '
      'and symmetry actions (g_pos, g_vect, g_cart, g_direc, g_tensor, PairState.g, ClusterSite.g, GroupOp.__mul__/inv) are executed '
      'on z3 terms for symbolic lattice vectors (integers), unit-cell coordinates, Cartesian points, directions and tensors; '
      'for every listed crystal and every one of its operations all routes are compared with each other and with an independent '
      'lattice-coordinate route, and products/inverses are checked to act as composition/inverse (QF_LIRA, decided for all values).',
      'Floats as reals with the exact rational values of the library-computed constants, equalities to 1e-8; |R_k|<=1000 '
      '(<=4 for Cartesian->unit round trips on lattices whose float inverse is inexact: solver limit); unit coordinates kept 1e-6 '
      'below the cell boundary; crystals/operations enumerated; quick tier samples operation pairs for composition.',
      'DESIGN.md 3/C23, 2.4')

claim('C02',
      'Bounded symbolic verification with a certificate: the real Interstitial.diffusivity (with siteprob/ratelist/symmratelist and '
      'its solve/pinv bias solver) runs on z3 terms for ALL site and transition-state energies and prefactors; the code\'s own '
      'bias solution is lifted to site space and must satisfy the exact master-equation balance at every site (rates rebuilt '
      'independently by the harness), and the returned tensor must equal 1/2 sum rho W dx dx + sum rho g(x)b. Together these '
      'characterise the long-time diffusivity of the periodic jump process, so an unsat verdict is exactness for every input on '
      'the listed crystals (QF_NRA, exact algebra).',
      'Only exact verification crystals (all structure constants dyadic rationals, checked at run time): X1s, X1, X4r (solve branch), '
      'X2 (pinv branch) [+X2b, X3 thorough]; hexagonal/cubic crystals with irrational normalisations are outside. Floats as reals; '
      'exp/log via monomial algebra; sqrt/solve/pinv as contracts (fresh unknowns + defining equations). The sentence about the '
      'Green-function calculator reporting the same D is NOT covered (Taylor inversion + eigh).',
      'DESIGN.md 3/C02, 2.1')

claim('C03',
      'Bounded symbolic verification (interstitial tensors): real Interstitial.diffusivity on z3 terms for all energies and '
      'prefactors: D == D^T, R D R^T == D for every point-group operation, diagonal entries >= 0 and (by a solver-discharged lemma '
      'chain: vanishing off-diagonals + non-negative diagonal, or in the thorough tier the sum-of-squares certificate / direct query) '
      'v^T D v >= 0 for a symbolic direction; real elastodiffusion with ALL dipole components symbolic (energies on an enumerated '
      'dyadic grid): index symmetries and invariance under every operation.',
      'Vacancy-mediated tensors (bare vacancy, solute-solute, solute-vacancy, vacancy correction) are NOT covered: a change that only '
      'breaks symmetry/positivity of Lij output is not detected. Exact verification crystals only; contracts as in C02.',
      'DESIGN.md 3/C03, 2.1')

claim('C04',
      'Bounded symbolic verification: (a) real VacancyMediated.preene2betafree on fully symbolic arrays (energies, positive '
      'prefactors, kT; enumerated lengths, every np.min path): outputs unchanged under a common energy shift of one species and its '
      'transition states, joint prefactor scaling, and (kT,E)->(lambda kT, lambda E); (b) real Interstitial.diffusivity executed on '
      'related symbolic inputs: common shift and joint prefactor scaling leave D unchanged, scaling every transition prefactor by '
      'lambda>0 scales D by lambda (QF_NRA, all inputs); (c) real VacancyMediated.Lij executed twice on fully symbolic inputs with an '
      'ABSTRACT Green-function calculator (arbitrary values per query, arbitrary bare diffusivity and bias correction): all rates '
      'multiplied by lambda multiplies all four tensors by lambda (rational identities decided after clearing denominators).',
      'Lij part: the scaling relation of the Green function itself (G -> G/lambda, D -> lambda D) is the CONTRACT of the abstract '
      'calculator, not decided here (it belongs to C10); square and simple-cubic calculators, standard omega2 branch (the large-omega2 '
      'branch needs eigh of a lambda-dependent matrix: its path is reported out-of-model). Invariance under intra-cell site '
      'displacement is NOT covered (two different crystals). Interstitial part on exact verification crystals, solve branch in '
      'quick tier (pinv branch: thorough, may be inconclusive); solve/pinv contracts include uniqueness instances.',
      'DESIGN.md 3/C04')

claim('C05',
      'Bounded symbolic verification (interstitial part): real Interstitial.diffusivity executed twice on z3 terms, the second time with '
      'one transition-state energy lowered by an arbitrary symbolic amount d>=0, one section per jump class; D\'_aa >= D_aa for every '
      'axis and v^T(D\'-D)v >= 0 (lemma chain where symmetry makes the off-diagonals vanish; direct query in the thorough tier) decided '
      'by z3 for all energies and all d.',
      'Bare-vacancy and solute-solute coefficients and the large-omega2 regime are NOT covered (numerical GF, eigh): a change confined '
      'to VacancyMediated.Lij is not detected (seed C05-large-om2-cutoff-max is missed for this reason). Exact crystals; prefactors '
      'fixed to 1 in quick, symbolic in thorough.',
      'DESIGN.md 3/C05, 2.1')

claim('C14',
      'Bounded symbolic verification of purity by uninterpreted abstraction: the real VacancyMediated.Lij runs on fully symbolic '
      'inputs in call histories written as programs over two inputs (calls, in-place edits of the arrays returned by ANY earlier call '
      'by arbitrary symbolic amounts, cache clears: x E0 x | x y x y | x C x | x E0 C x | x x E1 x | x y E1 x y, four longer ones in '
      'the thorough tier), both omega2 algorithms; LAPACK, exp, sqrt and the Green-function calculator are memoised uninterpreted '
      'functions, the real cache-key hash/equality run on the symbolic arrays; EVERY answer of a history is compared term-wise by z3 '
      'with the answer of a fresh deep copy of the calculator, so hidden state, aliasing with caller-visible arrays or a stale cache '
      'is a satisfiable difference. Range regeneration (regen sections): a calculator built with one thermodynamic range answers a query, is '
      'regenerated in place (generate + generatematrices) and must agree term-wise with a freshly built calculator of the new range.',
      'Decides data-flow purity, not numerical values. GF calculator modelled as an environment (function of the rates; fresh arrays '
      'per SetRates; Diffusivity()/biascorrection() return stored arrays as the real one does). Raw-bytes hashing modelled as equal '
      'iff all numbers equal (inputs in [1/16, 8], so +0.0 / -0.0 cannot meet). Calculators enumerated (square, SC quick; + rect-2-site, square Nthermo=2 thorough); <=4 calls. '
      'Reload histories are in C13 (seed C14e is decided there). GFcalculator histories (discarded result; coarser mesh after use) are concrete runs of the real Green-function calculator, stated as such. Four defects found and fixed (L0vv aliasing; stale vector stars and stale tags after range regeneration; GFcalculator did not install the calculator it built).',
      'DESIGN.md 3/C14, 2.3')

claim('C32',
      'Bounded symbolic verification: on every occupation of the listed supercells (mobile and spectator occupations are symbolic 0/1 '
      'integers case-split by the solver) and for ALL cluster values (symbolic reals), the real evalcluster, expandcluster_matrices, '
      'clusterevaluator and MonteCarloSampler.E give the same energy as a brute-force sum over clusters, compared as linear forms by z3.',
      'Supercells/cluster sets enumerated (4-8 mobile sites, spectator sublattice, vacancy + vacancy clusters, thin cells where cluster '
      'sites wrap); occupations are solver-driven enumeration (2^n paths); brute force uses the supercell\'s own site indexing.',
      'DESIGN.md 3/C32')

claim('C33',
      'Bounded symbolic verification by inductive step: from ANY occupation (solver case split) with counters/sets built from their '
      'definition, one real update/deltaE_trial with symbolic site lists; post-state equals the definition on the new occupation and a '
      'freshly started sampler, start() produces the definition, deltaE_trial == E_after - E_before for all symbolic cluster/KRA/TS values.',
      'Supercells enumerated; site lists <=2+2, distinct, never the vacancy (documented precondition); values symbolic reals.',
      'DESIGN.md 3/C33, 2.2')

claim('C34',
      'Bounded symbolic verification: per occupation path with symbolic cluster, KRA and TS-cluster values, for every transition the real '
      'sampler reports the real update is applied; the reverse is then reported exactly once with -dx and Q_fwd - Q_rev == E_final - '
      'E_initial as linear forms (z3, all values); with a vacancy the final state is a sampler on the supercell with the vacancy moved.',
      'Supercells / networks enumerated (SC, HCP two sites per cell, B2 with spectators, thin FCC/SC cells with vacancy).',
      'DESIGN.md 3/C34')

claim('C35',
      'Bounded symbolic verification: the uncompiled bodies of the jitclass methods (built by MonteCarloSampler_param) run on z3 terms next '
      'to the reference sampler on every occupation path with symbolic values: start, E, deltaE_trial, update, transitions (forbidden => '
      'inf) agree, and MCmoves with symbolic choices and symbolic kT*log(u) (batch <=3) equals move-by-move Metropolis.',
      'numba compilation trusted (counterexamples replayed on the compiled class). One defect found and fixed (np.Inf).',
      'DESIGN.md 3/C35')

claim('C16',
      'Bounded symbolic verification: real Taylor3D/Taylor2D arithmetic (sum, difference, negation, scalar / dictionary / matrix product, '
      'product of expansions, slicing and slice assignment, truncation, reducecoeff/collectcoeff/reduce, separate, constructexpansion) '
      'executed with one fully symbolic coefficient block; the result, evaluated by the real __call__/powexp on a unisolvent set of '
      'rational unit vectors, equals the operation applied to the evaluated operands for every radial order (QF_LRA, all coefficient '
      'values, every allclose stratum of reduce/collect/separate explored).',
      'One symbolic block per run (other blocks fixed dyadic values; complete for linear/bilinear operations by linearity, for the '
      'reductions the companions are enumerated); real coefficients in [-1,1]; equality to 1e-8 at the evaluation set; Lmax=4; index '
      'tables are exercised through these identities, not inspected directly.',
      'DESIGN.md 3/C16, 2.4')

claim('C17',
      'Bounded symbolic verification: real rotatedirections/rotate/irotate with a symbolic parity-consistent coefficient block: '
      'rotate(f)(p) == f(Q p) at unisolvent points for enumerated invertible non-orthogonal Q (QF_LRA); real inversecoeff with a symbolic '
      'tail: inv(Nmax)*c and c*inv(Nmax) equal the identity through order Nmax (orders linear in the tail with all entries symbolic; '
      'quadratic order through one-parameter families, z3 decides the polynomial identity).',
      'Transformation and leading matrices enumerated; real coefficients in [-1,1]; equality to 1e-8 at the evaluation set; Lmax=4.',
      'DESIGN.md 3/C17')

claim('C20',
      'Bounded symbolic verification: for EVERY subgroup of m-3m (standard and rotated setting) and 6/mmm taken as a site group the real '
      'GroupOp.eigen / VectorBasis / SymmTensorBasis / CombineVectorBasis / CombineTensorBasis produce bases for which z3 decides, for a '
      'symbolic vector and symbolic symmetric tensor, invariant under the group <=> in the span of the basis (both directions), bases '
      'orthonormal; for every site of the crystal library the Crystal-level bases against the site point group, the point group fixing '
      'its site for every lattice translation, Wyckoff sets == orbits; Crystal.Wyckoffpos(u) with symbolic u: each image listed exactly once '
      'on every coincidence stratum.',
      'Subgroups enumerated by closure; premise tolerance 1e-9, conclusion 1e-6; crystal sites enumerated; Wyckoffpos on crystals with <=8 '
      'operations with a guard band around special coordinates; addbasis-with-full-orbit is not covered. One defect found and fixed '
      '(rotoreflections in VectorBasis: pure S4 site symmetry).',
      'DESIGN.md 3/C20')

claim('C18',
      'Bounded symbolic verification: for every crystal of the library and EVERY reported operation, with symbolic lattice translation R '
      'and symbolic points: image of every atom == Cartesian image (same species, spin), recorded permutation == geometry, isometry (by '
      'polarisation), integer rotation with integer inverse, Cartesian action == lattice-coordinate action (QF_LIRA); closure/identity/'
      'inverse modulo lattice translations by looking up every product; GroupOp.__mul__ on fully symbolic operations associative and '
      'acting as composition.',
      'Soundness only (completeness of the symmetry search is not part of the property). Crystals enumerated (incl. scalar/vector spins, '
      'hexagonal magnets, NOSYM); |R_k|<=1000; equalities to 1e-8 with the exact rationals of the library floats.',
      'DESIGN.md 3/C18')

claim('C22',
      'Bounded symbolic verification: crystals and mesh divisions enumerated (even/odd/mixed; cubic, hexagonal, skewed lattices), real '
      'fullkptmesh/reducekptmesh/inBZ run; the invariant periodic FUNCTION is symbolic (every coefficient of sum_s c_s sum_{R in shell} '
      'cos(k.R) a solver real): z3 decides that the reduced weighted average equals the full-mesh average for all coefficient vectors; '
      'weights positive and summing to one, every point inside the Brillouin zone (library test and an independent one). Zone sections: '
      'the real genBZG/inBZ run with a SYMBOLIC length scale of the lattice (solver real in [1/8, 64], five sub-ranges), forking on every '
      'comparison; z3 decides that the zone-bounding vectors are the Voronoi-relevant reciprocal vectors (independent construction) '
      'divided by the scale.',
      'The mesh routines have no continuous input, so they run concretely on the enumerated cases (lattice constants 1 and 3-10, skewed '
      'and sheared cells); the universally quantified parts are the function family (10 shells) and the length scale. Terminate '
      'sections replay the float fullkptmesh under a time limit on meshes with points on zone faces (concrete replay, stated as such). '
      'Three defects found and fixed (points left outside the BZ on skewed lattices; zone vectors wrong for lattice constants above '
      '~3; non-termination of the first repair at roundoff level).',
      'DESIGN.md 3/C22')

claim('C21',
      'Bounded symbolic verification: real Crystal.jumpnetwork / jumpnetwork2lattice executed with a SYMBOLIC cutoff and a SYMBOLIC '
      'obstruction distance (scalar and per-species list); each comparison forks under solver control so every path is one interval between '
      'consecutive shell / path distances; per path the network equals the harness\' independent enumeration (membership of every candidate '
      'jump decided by z3 from |dx|<cutoff and not obstructed), holds each jump once, is closed under the space group and reversal, and '
      'its lattice form encodes the same jumps.',
      'Crystals/species enumerated; cutoff and distance over stated intervals; guard bands 1e-6 (shells, strict <) and 1e-4 (path '
      'distances, isclose); independent enumeration over a +-5 cell box.',
      'DESIGN.md 3/C21')

claim('C31',
      'Bounded symbolic verification: real cluster.makeclusters executed with a SYMBOLIC cutoff (one path per interval between pair '
      'distances): per path the generated set equals the independent enumeration of all site sets up to order 3 whose sites are pairwise '
      'within the cutoff (membership decided by z3), orbits disjoint, each a single closed symmetry orbit, excluded species absent; '
      'makeTSclusters / makeVacancyClusters results closed under the space group (TS: and reversal). Cluster equality/hash invariance '
      'under translation and reordering is decided in C36.',
      'Crystals, order, exclusions enumerated; cutoff over stated intervals with a 1e-6 guard band around squared pair distances.',
      'DESIGN.md 3/C31')

claim('C25',
      'Bounded symbolic verification on enumerated crystals/networks/shells (origin states on): per star, for a SYMBOLIC vector, invariant '
      'under the stabiliser of the representative <=> in the span of that star\'s vectors (both directions), count == invariant dimension, '
      'orthonormality, equivariance under EVERY operation carrying the representative to a member; for SYMBOLIC Green-function star values '
      'and omega0 / omega1 / omega2 rates, the contraction of GFexpansion, the rate / escape / bias / bare expansions (omega1, the '
      'omega0 reference, and omega2 with origin states hijacked) equals the direct state-space assembly projected on the vector '
      'stars; outer contracted with a symbolic coefficient vector on either side equals the direct sum of outer products; the '
      'origin-state fold-down (solute and vacancy) equals its direct assembly (QF_LRA).',
      'Crystal list includes a chiral 222 crystal and cells with C1 sites; GF values assumed symmetric under end-point swap. '
      'One defect found and fixed (2-fold rotation about dx).',
      'DESIGN.md 3/C25')

claim('C13',
      'Bounded symbolic verification (HDF5 half): the real addhdf5/loadhdf5 of VacancyMediated and their helpers (vTKdict2arrays/'
      'arrays2vTKdict, doublelist2flatlistindex/flatlistindex2doublelist, PSlist2array/array2PSlist), of Taylor3D/2D, run against an '
      'in-memory store with the h5py contract: cache dictionaries holding ARBITRARY symbolic arrays under symbolic keys come back entry by '
      'entry; a reloaded calculator (cache populated or empty) gives term-identical Lij for the same and for a further symbolic input '
      '(uninterpreted abstraction as in C14), equal tags; Taylor coefficients and evaluations identical; star sets, vector star sets and '
      'the Green-function calculator compared attribute by attribute, and so are the reloaded VacancyMediated and GFCrystalcalc '
      'objects (every attribute both have: nested lists, arrays, star sets). Input-buffer history: after a call the caller edits the '
      'array it passed in place (symbolic amount), saves and reloads; the reloaded calculator must answer the original and the edited '
      'input correctly; the reloaded object has every attribute of the original (two defects found and fixed: cache keys aliased the '
      'caller\'s arrays; threshold not restored).',
      'HDF5 modelled by a stub (replays use real h5py, core driver); YAML half of the property NOT covered; calculators enumerated; '
      'vacancy/solute site energies fixed to zero in the Lij round trip.',
      'DESIGN.md 3/C13, 2.3')

claim('C15',
      'Bounded symbolic verification: real VacancyMediated.tags2preene / makeLIMBpreene executed with a SYMBOLIC (prefactor, energy) pair per '
      'class while the member tag that carries the data, the presence / duplicate flags and injected bogus tags are solver case splits: per '
      'path the generated arrays equal the supplied data entry for entry, unsupplied classes get the defaults / the LIMB value from the '
      'harness formula, and the VERBOSE report lists exactly the missing classes, duplicated tags and unrecognised tags (also on a second '
      'verbose call on the same calculator); tag uniqueness and tag->class consistency for vacancy-mediated and interstitial calculators.',
      'Calculators enumerated; symbolic member choice for one class at a time, symbolic flags for four classes at a time.',
      'DESIGN.md 3/C15')

claim('C11',
      'Bounded symbolic verification of all three sentences. (1) Activation barrier: the real diffusivity(CalcDeriv=True) runs on z3 terms '
      'with ALL energies symbolic (monomial algebra); the code\'s own bias solution is lifted to site space and the returned Db must '
      'equal minus the first-order perturbation of D = D0 + b^T omega^+ b under beta -> beta(1+t) (QF_NRA, exact crystals). '
      '(2) Elastodiffusion: energies / prefactors on dyadic grid instances, ALL site and transition dipole components symbolic; the '
      'returned tensor must equal the first-order perturbation of the exact diffusivity under E -> E - P:eps plus the geometric term, '
      'assembled by the harness in site space with its own dense solve (QF_LRA, decided for all dipoles, any crystal). '
      '(3) Populated dipoles: real siteDipoles / jumpDipoles on ARBITRARY NON-SYMMETRIC symbolic dipoles; for every site and jump the '
      'populated dipole equals g P g^T for EVERY operation g carrying the representative there, P = symmetrise + average over the '
      'stabiliser of the representative site / transition (incl. reversing operations) (QF_LRA).',
      'Barrier: exact crystals X1s, X1, X4r (+X2, X3 thorough), unit prefactors. Strain derivative: 9 crystal / grid instances quick '
      '(X1s, X4r, X2, X5, X3, HCP o+t, rect2, monoclinic, BCC octahedral), 3 instances of 14 crystals thorough; the perturbation '
      'formulas (rate W\' = W (P_T - P_i), rho\' = rho (P_i - <P>), pseudo-inverse derivative contracted with a bias in its range) are '
      'hand-derived and part of the claim. Crystals/networks enumerated. Defects found and fixed: 2-d C2 tensor basis, 2-d mirror '
      'eigenvectors, elastodiffusion for symmetry-lowering strain components (e6987bf).',
      'DESIGN.md 3/C11')

claim('C12',
      'Bounded symbolic verification with a spectral contract: the real Interstitial.losstensors (with siteprob, ratelist, '
      'symmratelist, siteDipoles) runs on z3 terms; np.linalg.eigh is a contract (fresh ascending eigenvalues, fresh orthogonal '
      'eigenvectors, A_L V = V diag(w) on the lower triangle).  z3 first decides that the matrix the code diagonalises is the '
      'symmetrised rate matrix rebuilt by the harness from the inputs; the spectral facts of such a matrix on a connected '
      'network (zero mode +-sqrt(rho), the rest negative) are then instantiated.  Per path (the skip / merge decisions of the '
      'code fork): every reported rate is positive and is minus a non-zero eigenvalue, every non-zero mode is reported exactly '
      'once and rates are pairwise different, every loss tensor has the compliance symmetries and is a sum of squares '
      '(polynomial identity), and the sum rule sum_modes L == <P(x)P> - <P>(x)<P> follows by a lemma chain whose every link is '
      'a z3 query; all elastic-dipole components are symbolic throughout.',
      'Energies: all symbolic for the two-site crystals X2 (quick) / X2b (thorough); dyadic grid instances for the others (X5, X1s, X1, '
      'X6 p4mm, BCC octahedral (Snoek), triangular edge sites, HCP oct+tet), where the path is chosen by a concrete '
      'numpy eigen-decomposition at that point (oracle-guided: the solver decides the obligations on that path for all '
      'dipoles, other paths are not explored).  Prefactors 1.  Guard bands: non-zero rates >= 1e-6 x average rate, rates equal or '
      'separated by > 1e-4 relative.  The step from (omega.sqrt(rho) = 0, connected network) to the spectral facts is '
      'Perron-Frobenius, not done by z3.  Disconnected networks are outside.  Floats as reals.',
      'DESIGN.md 3/C12')

claim('C24',
      'Bounded symbolic verification on enumerated crystals / networks / shell numbers: for a pair state whose lattice vector is a '
      'SYMBOLIC integer vector (|R_k| <= 1000) and whose two site indices are case-split, z3 decides (QF_LIA) that membership in '
      'StarSet.states is equivalent to being reachable by 1..N jumps (independent breadth-first composition of the network in lattice '
      'form; origin states when requested) - for every R, so no state is missing and none is foreign; that the real PairState.g '
      'applied to the symbolic state stays in the same star for every space-group operation; and that for two symbolic member states '
      'with the same solute site the endpoint difference is a member of the difference star set (diffgenerate) and equals the real '
      '`^`. On the same run, as replayable constant obligations: the stars partition the states, every star is one orbit, '
      'stateindex / starindex / index / `in` are consistent (every member and a far non-member), and StarSet(N1) + StarSet(N2) '
      'equals StarSet(N1+N2) in states and stars for every split.',
      'The crystal and the network carry no continuous input: the solver content is the unbounded lattice vector of the queried '
      'state; the reference sets are finite. Index look-ups go through a hash dictionary and are exercised on concrete states only. '
      'N <= 2 (quick), <= 3 (thorough); 9 / 15 crystals.',
      'DESIGN.md 3/C24')

claim('C26',
      'Bounded symbolic verification on enumerated crystals / networks / shells and VacancyMediated configurations: for a transition '
      'whose initial pair state has a SYMBOLIC lattice vector (|R_k| <= 1000; site indices and the vacancy jump taken are case-split) '
      'z3 decides (QF_LIA) that a swing jump between two non-zero member states lies in EXACTLY ONE class of jumpnetwork_omega1(), '
      'that an exchange (the jump lands on the solute) lies in exactly one class of jumpnetwork_omega2(), each with the vacancy\'s '
      'displacement, and that after the pruning in VacancyMediated.generate every swing jump that starts or ends in the '
      'thermodynamic range is still in exactly one class. Replayable constant obligations on the same run: every listed entry is a '
      'genuine single jump / exchange with the right displacement, classes are closed under the space group and reversal, no entry '
      'twice, nothing between two outer stars survives the pruning, star pairs match the classes.',
      'No continuous input: the solver content is the unbounded lattice vector of the queried transition; reference sets are finite. '
      '8 / 13 star sets (N <= 2, 3 in thorough) and 3 / 5 VacancyMediated configurations.',
      'DESIGN.md 3/C26')

na('C01', 'exact oracle is an infinite-state pair Markov chain reached through Brillouin-zone quadrature, LAPACK and hyp1f1/expi; '
          'agreement only to integration accuracy: no algebraic statement a solver can decide (DESIGN 5)')
na('C06', 'identities hold only for the true lattice Green function of the omega0 network (numerical k-space integration); '
          'with an abstract GF they are false, with the real one not encodable (DESIGN 5)')
na('C07', 'same as C06: requires the numerically integrated lattice Green function at two thermodynamic ranges (DESIGN 5)')
na('C08', 'subject is floating-point conditioning up to 1e16 and an eigh-based algorithm; the real-number model erases the first, '
          'LAPACK eigen-solvers are outside the encodable fragment (DESIGN 5)')
na('C09', 'compares two different concrete crystals through the numerical Green function; no symbolic input remains (DESIGN 5)')
na('C10', 'numerical inverse Fourier transform + special functions; an accuracy statement, not an algebraic identity (DESIGN 5)')
claim('C19',
      'Bounded symbolic verification: primitive crystals, integer supercell matrices (|det| 2..6) and atom orderings are enumerated; the '
      'NUMERICAL NOISE on every coordinate of every atom of the supercell description is symbolic (one solver real each, |noise| <= '
      'threshold/16). The real Crystal constructor (reduce, minlattice, center, gengroup, ...) runs on those terms: every tolerance '
      'comparison is decided by z3 for all noise values (a comparison that noise can tip forks the path), roundings are replaced by '
      'their value when two queries show the path condition pins it. Per path: atoms per species, volume per atom, right-handed lattice '
      'meeting the documented reduction criteria, group order of the primitive description, lattice equal to and atom differences within '
      'a multiple of the noise of the noise-free result (up to origin / inversion of the setting).',
      'The supercell matrix and the ordering stay enumerated (making them symbolic degenerates to enumeration); what is universally '
      'quantified is the noise. Real-number model of the float arithmetic; counterexamples are replayed in floats and count only if they '
      'reproduce (soft). One defect found and fixed (reduce() raised ArithmeticError for orderings whose first translation is 2/3, 2/5 ...).',
      'DESIGN.md 3/C19')
na('C27', 'concrete supercells and occupations only: equivalencemap reads EVERY occupation through defectindices (dictionary keys built from the '
          'species), so every path of a symbolic run fixes all occupations and the exploration degenerates to the enumeration of occupation '
          'pairs, which this family excludes; the operations as permutations are finite concrete data (DESIGN 5)')
na('C29', 'as C27: concrete crystal, network and supercell size; outputs are finite dictionaries of supercells (DESIGN 5)')
na('C30', 'tar/JSON/Makefile text, package-resource loading and an external perl script: string formatting and I/O are the subject; '
          'onsager.automator does not even import here (pkg_resources missing) (DESIGN 5)')

PENDING = 'check not built yet in this framework (planned, see DESIGN.md section 3); not claimed until it runs end-to-end'
ALL = ['C%02d' % i for i in range(1, 37)]


def main():
    checks = []
    for pid in ALL:
        if pid in CLAIMED:
            c = CLAIMED[pid]
            checks.append({
                'property_id': pid,
                'quick_cmd': './check %s --tier quick' % pid,
                'thorough_cmd': './check %s --tier thorough' % pid,
                'evidence_file': 'evidence/%s.json' % pid,
                'replay_cmd_template': './check %s --replay {path}' % pid,
                'engine': ENGINE,
                'level_claimed': {'category': 'other', 'text': c['text'], 'design_ref': c['ref']},
                'level_note': c['note'],
                'technique': c['technique'],
            })
    nas = []
    for pid in ALL:
        if pid in CLAIMED:
            continue
        nas.append({'property_id': pid, 'reason': NA.get(pid, PENDING)})
    m = {
        'version': 1,
        'setup_cmd': './setup.sh',
        'hooks': {
            'guard': 'ONSAGER_VERIF',
            'enable': 'no source hooks: the checks load /repo/onsager/*.py from the working tree through an import hook '
                      '(symx/loader.py) and observe internals through the stubs that replace numpy/LAPACK',
            'baseline_off_cmd': 'cd /repo && /venv/bin/python -m pytest -ra -q -p no:cacheprovider --timeout=900 '
                                '--continue-on-collection-errors',
            'source_commits': [],
            'add_only': True,
        },
        'engines': [{
            'name': ENGINE, 'path': 'symx/',
            'serves_properties': sorted(CLAIMED),
            'kind_free_text': 'symbolic execution of the real Python/numpy code on z3 terms (Sym values in object arrays, '
                              'fork on symbolic branch, solver contracts for LAPACK/exp/sqrt), z3 5.1 wheel; cvc5 as cross-check',
        }],
        'checks': checks,
        'not_applicable': nas,
        'notes': 'Every check regenerates its encoding from /repo working-tree source on each run. Exit 0 = held within the '
                 'stated bounds (inconclusive obligations listed in evidence, never counted discharged); exit 1 + VIOLATION '
                 'line = counterexample reproduced on the untouched code; exit 3 = harness error. known_findings.json lists '
                 'recorded defects (KNOWN-FINDING lines) and fixed ones.',
    }
    with open(os.path.join(HERE, 'MANIFEST.json'), 'w') as f:
        json.dump(m, f, indent=1)
    print('claimed', sorted(CLAIMED), 'n/a', len(nas))


if __name__ == '__main__':
    main()
