"""C21 jump networks are complete, closed and obstruction-aware.

Crystal.jumpnetwork runs with a SYMBOLIC cutoff and a SYMBOLIC obstruction distance: every comparison of a
squared jump length with cutoff^2 (and of a squared path distance with closestdistance^2) forks under
solver control, so each path is one interval between consecutive shell / obstruction distances.  On every
path the returned network must equal the harness' independent enumeration (membership decided by z3 from
the defining inequalities), contain each jump once, be closed under the space group and reversal, and its
lattice form must encode the same jumps."""
import itertools
import sys

import numpy as np

from symx import run, loader

REPLAY = run.is_replay()
if REPLAY:
    loader.install_plain()
else:
    loader.install()

from onsager import crystal   # noqa: E402
from symx import core, harness, shim   # noqa: E402
from symx.core import ENG, Sym   # noqa: E402
from symx.harness import Src   # noqa: E402
sys.path.insert(0, __file__.rsplit('/', 1)[0])
import geom   # noqa: E402

GUARD = 1e-6        # around squared shell distances (the library compares with a strict <)
GUARD_OBS = 1e-4    # around squared path distances (the library uses np.isclose with rtol 1e-5 there)

# name: (crystal, chem, cutoff interval, closestdistance interval or None, per-species list?)
CASES = {
    'hcp': ('hcp', 0, (0.5, 1.45), None, False),
    'square': ('square', 0, (0.5, 2.3), None, False),
    'b2': ('b2', 1, (0.6, 1.5), (0.0, 0.6), False),
    'hcpoct': ('hcpoct', 1, (0.4, 1.1), (0.0, 0.55), False),
    'hcpoct-list': ('hcpoct', 1, (0.4, 1.1), (0.0, 0.55), True),
    'rumpled': ('rumpled', 0, (0.5, 1.3), None, False),
    'l12': ('l12', 1, (0.5, 1.1), (0.0, 0.45), False),
    'tetra-ab': ('tetra-ab', 0, (0.6, 1.3), (0.0, 0.7), False),
    'skew2': ('skew2', 0, (0.5, 1.6), None, False),
    'fccint': ('fccint', 1, (0.3, 0.8), (0.0, 0.4), False),
    'rect-ab': ('rect-ab', 0, (0.9, 1.3), (0.0, 1.1), False),
    'ortho-ab': ('ortho-ab', 0, (0.9, 1.2), (0.0, 1.1), False),
    'tric-abc': ('tric-abc', 0, (0.5, 0.95), (0.0, 0.6), True),
    'dimer-chain': ('dimer-chain', 0, (0.15, 1.45), (0.0, 0.5), False),
    'hcpoct-list-reuse': ('hcpoct', 1, (0.4, 1.1), (0.0, 0.55), True, 0),
    'tric-abc-reuse': ('tric-abc', 0, (0.5, 0.95), (0.0, 0.6), True, 1),
    'tetra-ab-reuse': ('tetra-ab', 0, (0.6, 1.3), (0.0, 0.7), True, 1),
    'oblique-far2': ('oblique-far2', 0, (0.6, 1.55), None, False),
}


def candidates(crys, chem, rmax, box=5):
    """every (i, j, n, dx) with 0 < |dx| <= rmax, from a box that contains the ball"""
    out = []
    N = len(crys.basis[chem])
    for i in range(N):
        for j in range(N):
            du = crys.basis[chem][j] - crys.basis[chem][i]
            for n in itertools.product(range(-box, box + 1), repeat=crys.dim):
                dx = crys.unit2cart(np.array(n), du)
                d2 = float(np.dot(dx, dx))
                if 1e-12 < d2 <= rmax * rmax:
                    out.append((i, j, np.array(n), dx, d2))
    return out


def obstruction_d2(crys, chem, i, dx, rmax, box=5):
    """squared distances from other-species atoms to the open path segment of the jump (i, dx): {species: [d2,...]}"""
    res = {}
    dx2 = float(np.dot(dx, dx))
    for c in range(crys.Nchem):
        if c == chem:
            continue
        lst = []
        for u0 in crys.basis[c]:
            for n in itertools.product(range(-box, box + 1), repeat=crys.dim):
                x = crys.unit2cart(np.array(n), u0 - crys.basis[chem][i])
                xd = float(np.dot(x, dx))
                if 0 <= xd <= dx2:
                    lst.append((float(np.dot(x, x)) * dx2 - xd * xd) / dx2)
        res[c] = sorted(lst)
    return res


def network(case):
    cname, chem, (clo, chi), cd, aslist = CASES[case][:5]
    # optional: species for which the network is generated FIRST with the very same list object (call history)
    first_chem = CASES[case][5] if len(CASES[case]) > 5 else None

    def fn(src=None):
        src = src or Src()
        crys = geom.get_crystal(cname)
        name = 'net:' + case
        sym = src.symbolic
        cutoff = src.real('cutoff', clo, chi)
        cands = candidates(crys, chem, chi + 0.05)
        shells = sorted(set(round(c[4], 9) for c in cands))
        closest = None
        obst = {}
        if cd is not None:
            closest = src.real('closest', cd[0], cd[1])
            for (i, j, n, dx, d2) in cands:
                obst[(i, j, tuple(n))] = obstruction_d2(crys, chem, i, dx, chi)
        if sym:
            for d2 in shells:          # guard bands (DESIGN 1.6)
                dd = cutoff * cutoff - d2
                ENG.assume(core.Or(dd >= GUARD, dd <= -GUARD))
            if closest is not None:
                allod = sorted(set(round(x, 9) for o in obst.values() for l in o.values() for x in l))
                for x in allod:
                    dd = closest * closest - x
                    ENG.assume(core.Or(dd >= GUARD_OBS, dd <= -GUARD_OBS))
        arg = closest
        if closest is not None and aslist:
            arg = [closest if c != chem else 0.0 for c in range(crys.Nchem)]
        with shim.symbolic_mode():
            if first_chem is not None:
                crys.jumpnetwork(first_chem, cutoff, arg)      # same list object, another species: must not influence the next call
            jn = crys.jumpnetwork(chem, cutoff) if closest is None else crys.jumpnetwork(chem, cutoff, arg)
            jl = crys.jumpnetwork2lattice(chem, jn)
        if sym:
            ENG.require_feasible()
        obs = []
        info = src.info(replayer='net', extra={'case': case})

        def ob(n, v):
            obs.append(('%s:%s' % (name, n), v, dict(info, sig='net:' + n.split('@')[0])))
        got = {}
        for cls, jumps in enumerate(jn):
            for (i, j), dx in jumps:
                k = (i, j) + tuple(np.round(np.asarray(dx, dtype=float), 6) + 0.0)
                got.setdefault(k, []).append(cls)
        ob('each-jump-once', all(len(v) == 1 for v in got.values()))
        # exact set: membership of every candidate decided from the defining inequalities
        conds = []
        for (i, j, n, dx, d2) in cands:
            k = (i, j) + tuple(np.round(dx, 6) + 0.0)
            inside = (cutoff * cutoff > d2)
            blocked = False
            if closest is not None:
                terms = []
                for c, lst in obst[(i, j, tuple(n))].items():
                    for x in lst:
                        terms.append(closest * closest >= x)
                blocked = (core.Or(*terms) if terms else False) if sym else any(bool(t) for t in terms)
            member = (core.And(inside, core.Not(blocked)) if sym else (bool(inside) and not blocked))
            if sym:
                conds.append(member if k in got else core.Not(member))
            else:
                conds.append(bool(member) == (k in got))
        ob('exact-jump-set', core.And(*conds) if sym else all(conds))
        known = set((i, j) + tuple(np.round(dx, 6) + 0.0) for (i, j, n, dx, d2) in cands)
        ob('no-foreign-jumps', all(k in known for k in got))
        # classes closed under the space group and under reversal
        closed = True
        zero = np.zeros(crys.dim, dtype=int)
        for cls, (jumps, lat) in enumerate(zip(jn, jl)):
            for ((i, j), dx), ((i2, j2), Rl) in zip(jumps, lat):
                dxf = np.asarray(dx, dtype=float)
                if got.get((j, i) + tuple(np.round(-dxf, 6) + 0.0)) != [cls]:
                    closed = False
                for g in crys.G:
                    gdx = np.dot(g.cartrot, dxf)
                    gi, gj = g.indexmap[chem][i], g.indexmap[chem][j]
                    if got.get((gi, gj) + tuple(np.round(gdx, 6) + 0.0)) != [cls]:
                        closed = False
                # lattice form encodes the same jump
                if (i2, j2) != (i, j) or not np.allclose(crys.pos2cart(np.asarray(Rl, dtype=int), (chem, j)) - crys.pos2cart(zero, (chem, i)), dxf, atol=1e-7):
                    closed = False
        ob('classes-closed-and-lattice-form', closed)
        if sym:
            obs.append(('twin:%s' % name, core.And(*conds[:-1] + [core.Not(conds[-1])]) if conds else False))
        return obs
    return fn


QUICK = ['hcp', 'square', 'b2', 'hcpoct', 'tetra-ab', 'rect-ab', 'ortho-ab', 'dimer-chain', 'oblique-far2', 'hcpoct-list-reuse', 'tetra-ab-reuse']
THOROUGH = QUICK + ['hcpoct-list', 'rumpled', 'l12', 'skew2', 'fccint', 'tric-abc', 'tric-abc-reuse']


def sections(tier):
    S = run.Section
    return [S('net:' + c, network(c), budget_s=175 if tier == 'quick' else 1200, replayer='net', config=c, maxpaths=400, timeout_ms=20000)
            for c in (QUICK if tier == 'quick' else THOROUGH)]


def main():
    import warnings
    warnings.simplefilter('ignore')
    if REPLAY:
        run.replay_main('C21', {'net': lambda rec: harness.run_laws_concrete(network(rec['extra']['case']), rec)})
    C = crystal.Crystal
    chk = run.Check(
        'C21',
        functions=[loader.func_hash(f) for f in (C.jumpnetwork, C.jumpnetwork2lattice, C.g_pos, C.pos2cart, C.unit2cart)],
        assumptions=[
            'crystal and mobile species enumerated; cutoff and obstruction distance are symbolic reals over a stated interval (scalar and '
            'per-species list form); guard bands of 1e-6 around every squared shell distance and 1e-4 around every squared path distance (the '
            'library\'s isclose / float comparisons are legitimately arbitrary there)',
            'the independent enumeration uses a +-5 cell box, which contains the cutoff ball for the stated intervals',
            'sqrt in the cell-range estimate modelled by a rational enclosure; int(round(.)) case-split by the solver',
        ],
        explanation='Real jumpnetwork/jumpnetwork2lattice executed with symbolic cutoff and obstruction distance: one path per shell '
                    'interval; exact jump set, uniqueness, closure and lattice form decided per path.',
        bounds='; '.join('%s: chem %d cutoff in %s closest in %s' % (k, v[1], v[2], v[3]) for k, v in CASES.items()))
    chk.run(sections(chk.tier))
    chk.finish()


if __name__ == '__main__':
    main()
