"""C34 kinetic barriers obey detailed balance.

Per occupation path (solver case split) with symbolic cluster, KRA and transition-state values: for every
transition the real sampler reports, the real update is applied, the reverse transition must then be
reported exactly once with the opposite displacement, and Q_fwd - Q_rev == E_final - E_initial as linear
forms in all values.  With a vacancy the final configuration is a sampler on the supercell with the
vacancy moved."""
import sys

import numpy as np

from symx import run, loader

REPLAY = run.is_replay()
if REPLAY:
    loader.install_plain()
else:
    loader.install()

from onsager import cluster, supercell   # noqa: E402
from symx import core, harness, shim   # noqa: E402
from symx.harness import Src   # noqa: E402
sys.path.insert(0, __file__.rsplit('/', 1)[0])
import mc   # noqa: E402


def find_reverse(ij2, dx2, i, j, dx):
    return [m for m, ij in enumerate(ij2) if tuple(ij) == (j, i) and np.allclose(np.asarray(dx2[m], dtype=float), -np.asarray(dx, dtype=float), atol=1e-8)]


def balance(cname, ts):
    def fn(src=None):
        src = src or Src()
        cfg = mc.build(cname)
        name = 'balance:%s:%s' % (cname, 'ts' if ts else 'kra')
        V = mc.Vals(cfg, src)
        mocc, socc = mc.occupations(cfg, src)
        sym = src.symbolic
        obs = []
        info = src.info(replayer='balance', extra={'cfg': cname, 'ts': ts})

        suffix = ':cluster-site-aliases-vacancy' if cfg.get('opts', {}).get('aliasing') else ''

        def ob(n, v):
            obs.append(('%s:%s' % (name, n), v, dict(info, sig='balance:' + n.split('@')[0] + suffix)))
        with shim.symbolic_mode():
            MC = mc.make_sampler(cfg, V, socc, jumps=True, ts=ts)
            MC.start(mocc.copy())
            E0 = MC.E()
            ijlist, Qlist, dxlist = MC.transitions()
            seen = set()
            for (i, j), Q, dx in zip(ijlist, Qlist, dxlist):
                key = (i, j, tuple(np.round(np.asarray(dx, dtype=float), 6)))
                ob('unique@%d-%d' % (i, j), key not in seen)
                seen.add(key)
                if cfg['vacancy'] is None:
                    ob('allowed@%d-%d' % (i, j), mocc[i] == 1 and mocc[j] == 0)
                    dE = MC.deltaE_trial((j,), (i,))
                    MC.update((j,), (i,))
                    E1 = MC.E()
                    ij2, Q2, dx2 = MC.transitions()
                    MC.update((i,), (j,))
                    ob('trial@%d-%d' % (i, j), mc.lin_eq(dE, E1 - E0, sym))
                else:
                    ob('from-vacancy@%d-%d' % (i, j), i == cfg['vacancy'])
                    sup2 = supercell.ClusterSupercell(cfg['crys'], cfg['sup'].superlatt, spectator=cfg['sup'].spectator)
                    sup2.addvacancy(j)
                    cfg2 = dict(cfg, sup=sup2, vacancy=j)
                    mocc2 = mocc.copy()
                    mocc2[i], mocc2[j] = mocc[j], -1
                    MC2 = mc.make_sampler(cfg2, V, socc, jumps=True, ts=ts)
                    MC2.start(mocc2)
                    E1 = MC2.E()
                    ij2, Q2, dx2 = MC2.transitions()
                found = find_reverse(ij2, dx2, i, j, dx)
                ob('reverse-present@%d-%d' % (i, j), len(found) == 1)
                if len(found) == 1:
                    ob('detailed-balance@%d-%d' % (i, j), mc.lin_eq(Q - Q2[found[0]], E1 - E0, sym))
            if sym and len(ijlist):
                (i, j), Q = ijlist[0], Qlist[0]
                obs.append(('twin:%s:barrier-shifted' % name, mc.lin_eq(Q, Q + 1e-6, True)))
            elif sym:
                obs.append(('twin:%s:no-transitions' % name, False))
        return obs
    return fn


QUICK = [('sc221', True), ('hcp211', True), ('sc221v', True), ('b2-211', False), ('fcc122v', True), ('b2-113v', True), ('b2-211v', True), ('b2t-221v-o3', True), ('b2t-221-o3', True), ('b2-113v-o3', True)]
THOROUGH = QUICK + [('hcp221', True), ('sc222', True), ('hcp211', False), ('sc122v', True), ('fcc211', True), ('sc221-o3', True), ('b2-221v', True), ('b2-211', True), ('b2t-321v-o3', True), ('b2-211-o3', True)]


def sections(tier):
    S = run.Section
    return [S('balance:%s:%s' % (c, 'ts' if ts else 'kra'), balance(c, ts), budget_s=170 if tier == 'quick' else 1200,
              replayer='balance', config=c, maxpaths=5000, timeout_ms=10000) for c, ts in (QUICK if tier == 'quick' else THOROUGH)]


def main():
    import warnings
    warnings.simplefilter('ignore')
    if REPLAY:
        run.replay_main('C34', {'balance': lambda rec: harness.run_laws_concrete(balance(rec['extra']['cfg'], rec['extra']['ts']), rec)})
    CS = supercell.ClusterSupercell
    M = cluster.MonteCarloSampler
    chk = run.Check(
        'C34',
        functions=[loader.func_hash(f) for f in (CS.jumpnetworkevaluator, CS.jumpnetworkevaluator_vacancy, CS.clusterevaluator,
                                                 M.__init__, M.start, M.E, M.transitions, M.update, M.deltaE_trial,
                                                 cluster.makeTSclusters, cluster.makeVacancyClusters)],
        assumptions=[
            'supercells / cluster sets / jump networks enumerated (SC, HCP with two sites per cell, B2 with spectators, thin FCC and '
            'SC cells with a vacancy); occupations are solver-driven case splits',
            'cluster, KRA and transition-state cluster values symbolic reals in [-8,8]; identities exact as linear forms',
            'with a vacancy the final configuration is evaluated by a sampler built on the supercell with the vacancy moved to the '
            'jump endpoint (the reference sampler cannot move its vacancy)',
        ],
        explanation='Real jumpnetworkevaluator(_vacancy) + MonteCarloSampler.transitions/update/E executed on every occupation path '
                    'with symbolic values; reverse transition present once with -dx and Q_fwd - Q_rev == E_final - E_initial (z3, all values).',
        bounds='quick: %s; thorough: %s' % (QUICK, THOROUGH))
    chk.run(sections(chk.tier))
    chk.finish()


if __name__ == '__main__':
    main()
