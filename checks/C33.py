"""C33 Monte Carlo sampler state is a function of the occupation (inductive step).

Pre-state: ANY occupation (solver case split) with clustercount / occupied / unoccupied sets built by the
harness from their DEFINITION (not by start); one real update / deltaE_trial with symbolic site lists
(case split); post-state must equal the definition on the new occupation, start() must produce the
definition, and deltaE_trial must equal E_after - E_before for all (symbolic) cluster values."""
import sys

import numpy as np

from symx import run, loader

REPLAY = run.is_replay()
if REPLAY:
    loader.install_plain()
else:
    loader.install()

from onsager import cluster, supercell   # noqa: E402
from symx import core, harness, shim   # noqa: E402
from symx.core import ENG   # noqa: E402
from symx.harness import Src   # noqa: E402
sys.path.insert(0, __file__.rsplit('/', 1)[0])
import mc   # noqa: E402


def definition(MC, occ):
    """(clustercount, occupied set, unoccupied set) from the definition"""
    cc = np.zeros(len(MC.interactvalue), dtype=int)
    for i, o in enumerate(occ):
        if o == 0:
            for m in MC.siteinteract[i][:MC.Ninteract[i]]:
                cc[m] += 1
    return cc, set(i for i, o in enumerate(occ) if o == 1), set(i for i, o in enumerate(occ) if o == 0)


def state_is(MC, occ):
    cc, so, su = definition(MC, occ)
    return bool(np.all(np.asarray(MC.occ) == occ)) and bool(np.all(np.asarray(MC.clustercount) == cc)) and \
        MC.occupied_set == so and MC.unoccupied_set == su


def step(cname, maxlen, jumps):
    def fn(src=None):
        src = src or Src()
        cfg = mc.build(cname)
        name = 'step:%s:%d' % (cname, maxlen)
        V = mc.Vals(cfg, src)
        mocc, socc = mc.occupations(cfg, src)
        n = cfg['nmob']
        sym = src.symbolic
        # symbolic site lists (documented precondition: no site twice, never the vacancy)
        lo = int(src.int('len_occ', 0, maxlen))
        lu = int(src.int('len_unocc', 0, maxlen))
        sites = []
        for k in range(lo + lu):
            s = src.int('site%d' % k, 0, n - 1)
            if sym:
                for t in sites:
                    ENG.assume(s != t)
                if cfg['vacancy'] is not None:
                    ENG.assume(s != cfg['vacancy'])
            sites.append(s)
        sites = [int(s) for s in sites]
        occsites, unoccsites = tuple(sites[:lo]), tuple(sites[lo:])
        obs = []
        info = src.info(replayer='step', extra={'cfg': cname, 'maxlen': maxlen, 'jumps': jumps})

        def ob(nm, v):
            obs.append(('%s:%s' % (name, nm), v, dict(info, sig='step:' + nm)))
        with shim.symbolic_mode():
            MC = mc.make_sampler(cfg, V, socc, jumps=jumps, ts=jumps)
            # start() produces the definition
            MC.start(mocc.copy())
            ob('start-is-definition', state_is(MC, mocc))
            # arbitrary pre-state from the definition
            cc, so, su = definition(MC, mocc)
            MC.occ, MC.clustercount, MC.occupied_set, MC.unoccupied_set = mocc.copy(), cc.copy(), set(so), set(su)
            E0 = MC.E()
            dE = MC.deltaE_trial(occsites, unoccsites)
            ob('trial-leaves-state', state_is(MC, mocc))
            MC.update(occsites, unoccsites)
            newocc = mocc.copy()
            for i in occsites:
                newocc[i] = 1
            for i in unoccsites:
                newocc[i] = 0
            ob('post-state-is-definition', state_is(MC, newocc))
            E1 = MC.E()
            ob('trial-equals-difference', mc.lin_eq(dE, E1 - E0, sym))
            fresh = mc.make_sampler(cfg, V, socc, jumps=jumps, ts=jumps)
            fresh.start(newocc.copy())
            ob('energy-equals-fresh', mc.lin_eq(E1, fresh.E(), sym))
            ob('sets-equal-fresh', MC.occupied_set == fresh.occupied_set and MC.unoccupied_set == fresh.unoccupied_set)
            if jumps:
                a = MC.transitions()
                b = fresh.transitions()
                same = list(map(tuple, a[0])) == list(map(tuple, b[0])) and len(a[1]) == len(b[1])
                ob('transitions-equal-fresh', same and all(mc.lin_eq(x, y, sym) is True or mc.lin_eq(x, y, sym) for x, y in zip(a[1], b[1])) if not sym
                   else (same and core.And(*[x == y for x, y in zip(a[1], b[1])])))
            # start() from an ARBITRARY reachable state (not only on a new sampler) produces the definition again
            MC.start(mocc.copy())
            ob('restart-is-definition', state_is(MC, mocc))
            ob('restart-energy', mc.lin_eq(MC.E(), E0, sym))
            if jumps:
                fresh0 = mc.make_sampler(cfg, V, socc, jumps=jumps, ts=jumps)
                fresh0.start(mocc.copy())
                a, b = MC.transitions(), fresh0.transitions()
                same = list(map(tuple, a[0])) == list(map(tuple, b[0])) and len(a[1]) == len(b[1])
                ob('restart-transitions', (same and core.And(*[x == y for x, y in zip(a[1], b[1])])) if sym else
                   (same and all(bool(mc.lin_eq(x, y, sym)) for x, y in zip(a[1], b[1]))))
            if sym:
                obs.append(('twin:%s:energy-shifted' % name, mc.lin_eq(E1, fresh.E() + 1e-6, True)))
        return obs
    return fn


QUICK = [('sc221', 2, False), ('sc122v', 2, False), ('b2-211', 2, True), ('hcp211', 1, True), ('fcc122v', 1, True)]
THOROUGH = [('sc221', 2, True), ('sc122v', 2, True), ('b2-211', 2, True), ('hcp211', 2, True), ('fcc122v', 2, True), ('sc221-o3', 2, False),
            ('b2-113v', 2, True), ('sc222', 1, True), ('sc221v', 2, True)]


def sections(tier):
    S = run.Section
    return [S('step:%s:%d' % (c, L), step(c, L, j), budget_s=170 if tier == 'quick' else 1200, replayer='step', config=c,
              maxpaths=200000, timeout_ms=10000) for c, L, j in (QUICK if tier == 'quick' else THOROUGH)]


def main():
    import warnings
    warnings.simplefilter('ignore')
    if REPLAY:
        run.replay_main('C33', {'step': lambda rec: harness.run_laws_concrete(step(rec['extra']['cfg'], rec['extra']['maxlen'], rec['extra']['jumps']), rec)})
    M = cluster.MonteCarloSampler
    chk = run.Check(
        'C33',
        functions=[loader.func_hash(f) for f in (M.__init__, M.start, M.E, M.update, M.deltaE_trial, M.transitions)],
        assumptions=[
            'pre-state is ANY occupation (solver case split) with the counters and sets built from their definition, so the step covers '
            'histories of any length; site lists symbolic (<=2 to occupy, <=2 to unoccupy), distinct and never the vacancy (documented precondition)',
            'cluster / KRA / TS values symbolic reals; energies compared exactly as linear forms',
            'supercells and cluster sets enumerated (see bounds)',
        ],
        explanation='Inductive step for the reference sampler: one real update/deltaE_trial from an arbitrary definitional state; '
                    'post-state equals the definition on the new occupation, equals a fresh start, and deltaE_trial == E_after - E_before.',
        bounds='quick: %s; thorough: %s (config, max list length, with jump network)' % (QUICK, THOROUGH))
    chk.run(sections(chk.tier))
    chk.finish()


if __name__ == '__main__':
    main()
