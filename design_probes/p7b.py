import numpy as np, z3, time
import symx
from symx import ENG, Sym, SymBool, Int, Real
from onsager import PowerExpansion as PE
T3D = PE.Taylor3D
T3D()
class NP:
    def __getattr__(self, k): return getattr(np, k)
    def zeros(self, shape, dtype=float):
        if dtype in (float, complex):
            a = np.empty(shape, dtype=object); a.fill(0); return a
        return np.zeros(shape, dtype=dtype)
    def allclose(self, a, b, rtol=1e-5, atol=1e-8):
        a = np.asarray(a, dtype=object); 
        r = True
        for x in a.flat:
            d = abs(x - b)
            r = r and bool(d <= atol)   # forks
        return r
PE.np = NP()
def symcoeff(tag, n, l, shape=()):
    a = np.empty((T3D.powlrange[l],) + shape, dtype=object)
    for idx in np.ndindex(*a.shape):
        a[idx] = Real(tag + '_' + '_'.join(map(str, idx)))
    return (n, l, a)
pts = [np.array(v, dtype=float) for v in [(1,2,2),(2,3,6),(1,4,8),(4,4,7),(2,6,9),(6,6,7),(3,4,12),(-1,2,2),(2,-3,6),(1,4,-8)]]
pts = [p/np.sqrt(p@p) for p in pts]
def run():
    rng = np.random.RandomState(1)
    a = T3D([(0, 2, np.round(rng.uniform(-1,1,(T3D.powlrange[2],2,2))*64)/64), (2, 2, np.round(rng.uniform(-1,1,(T3D.powlrange[2],2,2))*64)/64)])
    b = T3D([symcoeff('b0', 0, 1, (2,2)), symcoeff('b1', 1, 2, (2,2))])
    c = a * b
    for (n,l,cf) in b.coefflist:
        for x in cf.flat: ENG.assume((x <= 1) & (x >= -1))
    obs = []
    fn = {(n, l): 1.0 + 0.37*n + 0.11*n*n for n in range(-4, 9) for l in range(5)}
    for k, u in enumerate(pts[:4]):
        va, vb, vc = a(u, fn), b(u, fn), c(u, fn)
        # product of evaluated: sum over terms f_n(a) f_m(b) -> need f_{n+m} = f_n f_m; use per (n) dictionary evaluation instead
        da, db, dc = a(u), b(u), c(u)
        ref = {}
        for (n1, l1), x in da.items():
            for (n2, l2), y in db.items():
                ref[n1+n2] = ref.get(n1+n2, 0) + np.dot(x, y)
        got = {}
        for (n, l), x in dc.items(): got[n] = got.get(n, 0) + x
        for n in ref:
            d = got[n] - ref[n]
            for idx in np.ndindex(2,2):
                obs.append(('prod u%d n%d %s' % (k, n, idx), (d[idx] <= 1e-9) & (d[idx] >= -1e-9)))
    return obs
t = time.time()
npaths, res = ENG.explore(run)
print(npaths, set(r[0] for r in res), len(res), 'queries', ENG.nq, 'solver %.1f' % ENG.tq, 'wall %.1f' % (time.time()-t))
