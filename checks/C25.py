"""C25 vector-star bases are orthonormal, equivariant and complete; expansions reproduce projections.

Structure (crystal, network, shells) is enumerated.  Decided by the solver:
 * completeness per star: for a SYMBOLIC vector v, v is invariant under the stabiliser of the star's
   representative state  <=>  v lies in the span of that star's vectors at the representative (both directions);
 * expansions: for SYMBOLIC Green-function star values / omega1 rates, the contraction of GFexpansion,
   rate1expansion(+escape), bias1expansion and D1expansion equals the harness' direct state-space assembly
   projected on the vector stars (QF_LRA).
Orthonormality and equivariance (every operation mapping the representative to a member carries the
vector along) are decided on the same run as replayable constant obligations."""
import itertools
import sys

import numpy as np

from symx import run, loader

REPLAY = run.is_replay()
if REPLAY:
    loader.install_plain()
else:
    loader.install()

from onsager import crystal, crystalStars as stars   # noqa: E402
from symx import core, harness, shim   # noqa: E402
from symx.core import ENG   # noqa: E402
from symx.harness import Src   # noqa: E402
sys.path.insert(0, __file__.rsplit('/', 1)[0])
import geom   # noqa: E402

PREM, CONC = 1e-9, 1e-6
# name: (crystal, chem, jump cutoff, Nshells)
CASES = {
    'square-1': ('square', 0, 1.01, 1), 'square-2': ('square', 0, 1.01, 2), 'sc-1': ('sc', 0, 1.01, 1), 'fcc-1': ('fcc', 0, 0.75, 1),
    'honeycomb-1': ('honeycomb', 0, 0.6, 1), 'honeycomb-2': ('honeycomb', 0, 0.6, 2), 'rect2-1': ('rect2', 0, 0.9, 1),
    'p222-1': ('p222', 1, 1.3, 1), 'oblique-c1-1': ('oblique-c1', 0, 1.1, 1), 'hcp-1': ('hcp', 0, 1.01, 1), 'tric-c1-1': ('tric-c1', 0, 1.2, 1),
    'sc-2': ('sc', 0, 1.01, 2), 'fcc-2': ('fcc', 0, 0.75, 2),
}
_B = {}


def build(case):
    if case not in _B:
        cname, chem, cut, N = CASES[case]
        crys = geom.get_crystal(cname)
        jn = crys.jumpnetwork(chem, cut)
        ss = stars.StarSet(jn, crys, chem, N, originstates=True)
        vs = stars.VectorStarSet(ss)
        _B[case] = (crys, chem, jn, ss, vs)
    return _B[case]


def basis_laws(case):
    def fn(src=None):
        src = src or Src()
        crys, chem, jn, ss, vs = build(case)
        dim = crys.dim
        name = 'basis:' + case
        sym = src.symbolic
        v = src.reals('v', dim, -1, 1)
        obs = []
        info = src.info(replayer='basis', extra={'case': case})

        def ob(n, val):
            obs.append(('%s:%s' % (name, n), val, dict(info, sig='basis:' + n.split('@')[0])))
        G = geom.sorted_ops(crys)
        # orthonormality of the whole set (as fields over states)
        Nv = vs.Nvstars
        gram = np.zeros((Nv, Nv))
        for i in range(Nv):
            for j in range(Nv):
                if vs.vecpos[i] == vs.vecpos[j]:
                    gram[i, j] = sum(np.dot(a, b) for a, b in zip(vs.vecvec[i], vs.vecvec[j]))
        ob('orthonormal', bool(np.allclose(gram, np.eye(Nv), atol=1e-8)))
        total = 0
        for si, s in enumerate(ss.stars):
            PS0 = ss.states[s[0]]
            ks = [k for k in range(Nv) if vs.vecpos[k] == s]
            stab = [g for g in G if PS0.g(crys, chem, g) == PS0]
            W = [vs.vecvec[k][0] / np.sqrt(np.dot(vs.vecvec[k][0], vs.vecvec[k][0])) for k in ks]
            P = sum((np.outer(w, w) for w in W), np.zeros((dim, dim)))
            Pv = np.dot(P, v)
            inv = [harness.close(np.dot(g.cartrot, v), v, PREM) for g in stab]
            prem = core.And(*inv) if sym else all(inv)
            ob('complete@%d' % si, core.Implies(prem, harness.close(Pv, v, CONC)) if sym else ((not prem) or harness.close(Pv, v, CONC)))
            c2 = [harness.close(np.dot(g.cartrot, Pv), Pv, CONC) for g in stab]
            ob('invariant@%d' % si, core.And(*c2) if sym else all(c2))
            # count == dimension of the invariant space of the stabiliser (trace of the group average)
            A = sum(np.array(g.cartrot) for g in stab) / len(stab)
            ob('count@%d' % si, len(ks) == int(round(np.trace(A))))
            total += len(ks)
            # equivariance: EVERY operation carrying the representative to a member carries the vector along
            ok = True
            for k in ks:
                for m, sm in enumerate(s):
                    for g in G:
                        if PS0.g(crys, chem, g) == ss.states[sm]:
                            if not np.allclose(np.dot(g.cartrot, vs.vecvec[k][0]), vs.vecvec[k][m], atol=1e-8):
                                ok = False
            ob('equivariant@%d' % si, ok)
        ob('every-vector-star-on-a-star', total == Nv)
        if sym:
            obs.append(('twin:%s' % name, harness.close(v, v + 1e-3, CONC)))
        return obs
    return fn


def expansion_laws(case):
    def fn(src=None):
        src = src or Src()
        crys, chem, jn, ss, vs = build(case)
        dim = crys.dim
        name = 'expand:' + case
        sym = src.symbolic
        Nv = vs.Nvstars
        obs = []
        GFexp, GFss = vs.GFexpansion()
        om1_jn, om1_jt, om1_SP = ss.jumpnetwork_omega1()
        g = src.reals('g', GFss.Nstars, -1, 1)
        w = src.reals('w', len(om1_jn), 0, 2)
        if sym:
            # the lattice Green function is symmetric under swapping its end points: star values of ds and -ds agree
            for st in GFss.stars:
                ds = GFss.states[st[0]]
                k1, k2 = GFss.starindex(ds), GFss.starindex(-ds)
                if k2 is not None and k1 != k2:
                    ENG.assume(g[k1] == g[k2])
        info = src.info(replayer='expand', extra={'case': case})

        def ob(n, val):
            obs.append(('%s:%s' % (name, n), val, dict(info, sig='expand:' + n)))
        tol = 1e-9
        # Green function: G[i,j] = sum_{s in i, s' in j} v_i(s).v_j(s') g[star(s' ^ s)]
        G0 = np.dot(GFexp, g)
        conds = []
        for i in range(Nv):
            for j in range(Nv):
                direct = 0
                for si_, vi in zip(vs.vecpos[i], vs.vecvec[i]):
                    for sj_, vj in zip(vs.vecpos[j], vs.vecvec[j]):
                        try:
                            ds = ss.states[sj_] ^ ss.states[si_]
                        except ArithmeticError:
                            continue
                        direct = direct + float(np.dot(vi, vj)) * g[GFss.starindex(ds)]
                conds.append(harness.close([G0[i, j]], [direct], tol))
        ob('GFexpansion', core.And(*conds) if sym else all(conds))
        if not om1_jn:
            # no vacancy jump connects two states of this (single-shell) star set: nothing to expand
            if sym:
                obs.append(('twin:%s' % name, harness.close([G0[0, 0]], [G0[0, 0] + 1e-6], tol)))
            return obs
        # omega1 rate matrix and escape, bias, bare diffusivity from the state-space jump list
        r0, r0e, r1, r1e = vs.rateexpansions(om1_jn, om1_jt)
        b0, b1 = vs.biasexpansions(om1_jn, om1_jt)
        D0e, D1e = vs.bareexpansions(om1_jn, om1_jt)
        field = {}          # (vector star index, state index) -> vector
        for i in range(Nv):
            for s_, vv in zip(vs.vecpos[i], vs.vecvec[i]):
                field[(i, s_)] = vv
        W = np.dot(r1, w)
        Wesc = np.dot(r1e, w)
        bias = np.dot(b1, w)
        D1 = np.dot(D1e, w)
        cW, cE, cB = [], [], []
        for i in range(Nv):
            esc = 0
            bi = 0
            for k, jl in enumerate(om1_jn):
                for (IS, FS), dx in jl:
                    if (i, IS) in field:
                        vi = field[(i, IS)]
                        esc = esc - float(np.dot(vi, vi)) * w[k]
                        bi = bi + float(np.dot(vi, dx)) * w[k]
            cE.append(harness.close([Wesc[i]], [esc], tol))
            cB.append(harness.close([bias[i]], [bi], tol))
            for j in range(Nv):
                d = 0
                for k, jl in enumerate(om1_jn):
                    for (IS, FS), dx in jl:
                        if (i, IS) in field and (j, FS) in field:
                            d = d + float(np.dot(field[(i, IS)], field[(j, FS)])) * w[k]
                cW.append(harness.close([W[i, j]], [d], tol))
        ob('rate1expansion', core.And(*cW) if sym else all(cW))
        ob('rate1escape', core.And(*cE) if sym else all(cE))
        ob('bias1expansion', core.And(*cB) if sym else all(cB))
        Dd = np.zeros((dim, dim), dtype=object)
        for k, jl in enumerate(om1_jn):
            for (IS, FS), dx in jl:
                Dd = Dd + 0.5 * np.outer(dx, dx) * w[k]
        ob('D1expansion', harness.close(np.asarray(D1, dtype=object).ravel(), Dd.ravel(), tol))
        if sym:
            obs.append(('twin:%s' % name, harness.close([G0[0, 0]], [G0[0, 0] + 1e-6], tol)))
        return obs
    return fn


def outer_laws(case):
    """outer[:, :, i, j] == sum_s v_i(s) (x) v_j(s) (same star), contracted with SYMBOLIC coefficient vectors on either side;
    origin-state fold-down against the direct assembly"""
    def fn(src=None):
        src = src or Src()
        crys, chem, jn, ss, vs = build(case)
        dim = crys.dim
        name = 'outer:' + case
        sym = src.symbolic
        Nv = vs.Nvstars
        a = src.reals('a', Nv, -1, 1)
        obs = []
        info = src.info(replayer='outer', extra={'case': case})
        tol = 1e-9

        def ob(n, val):
            obs.append(('%s:%s' % (name, n), val, dict(info, sig='outer:' + n)))
        outer = np.asarray(vs.outer)
        ob('outer-shape', outer.shape == (dim, dim, Nv, Nv))
        field = {}
        for i in range(Nv):
            for s_, vv in zip(vs.vecpos[i], vs.vecvec[i]):
                field[(i, s_)] = np.asarray(vv, dtype=float)
        cL, cR = [], []
        for j in range(Nv):
            left = sum((a[i] * outer[:, :, i, j] for i in range(Nv)), np.zeros((dim, dim), dtype=object))
            right = sum((a[i] * outer[:, :, j, i] for i in range(Nv)), np.zeros((dim, dim), dtype=object))
            dl = np.zeros((dim, dim), dtype=object)
            dr = np.zeros((dim, dim), dtype=object)
            for s_ in vs.vecpos[j]:
                vj = field[(j, s_)]
                fa = sum((a[i] * field[(i, s_)] for i in range(Nv) if (i, s_) in field), np.zeros(dim, dtype=object))
                dl = dl + np.outer(fa, vj)
                dr = dr + np.outer(vj, fa)
            cL.append(harness.close(np.asarray(left, dtype=object).ravel(), dl.ravel(), tol))
            cR.append(harness.close(np.asarray(right, dtype=object).ravel(), dr.ravel(), tol))
        ob('outer-left-contraction', core.And(*cL) if sym else all(cL))
        ob('outer-right-contraction', core.And(*cR) if sym else all(cR))
        # origin-state fold-down
        for elem, attr in (('solute', 'i'), ('vacancy', 'j')):
            OSi, fold, OSVB = vs.originstateVectorBasisfolddown(elem)
            want = [n for n in range(Nv) if ss.states[vs.vecpos[n][0]].iszero()]
            ob('folddown-indices-' + elem, list(OSi) == want)
            Nsites = len(crys.basis[chem])
            ob('folddown-shapes-' + elem, np.asarray(fold).shape == (len(want), Nv) and np.asarray(OSVB).shape == (len(want), Nsites, dim))
            cf, cv = [], []
            for r, ni in enumerate(want):
                direct = 0
                vb = np.zeros((Nsites, dim))
                for OS in vs.vecpos[ni]:
                    idx = getattr(ss.states[OS], attr)
                    vb[idx] = field[(ni, OS)]
                    for j in range(Nv):
                        for s_ in vs.vecpos[j]:
                            if getattr(ss.states[s_], attr) == idx:
                                direct = direct + float(np.dot(field[(ni, OS)], field[(j, s_)])) * a[j]
                cf.append(harness.close([np.dot(np.asarray(fold)[r], a)], [direct], tol))
                cv.append(bool(np.allclose(np.asarray(OSVB)[r], vb, atol=1e-9)))
            if want:
                ob('folddown-' + elem, core.And(*cf) if sym else all(cf))
                ob('folddown-vectorbasis-' + elem, all(cv))
        if sym:
            obs.append(('twin:%s' % name, harness.close([a[0]], [a[0] + 1e-6], tol)))
        return obs
    return fn


def omega02_laws(case):
    """omega0-reference parts of the omega1 expansions and the omega2 expansions (origin states removed / hijacked) against a
    direct state-space assembly, contracted with SYMBOLIC omega0 / omega2 rates"""
    def fn(src=None):
        src = src or Src()
        crys, chem, jn, ss, vs = build(case)
        dim = crys.dim
        name = 'omega02:' + case
        sym = src.symbolic
        Nv = vs.Nvstars
        obs = []
        om1_jn, om1_jt, om1_SP = ss.jumpnetwork_omega1()
        om2_jn, om2_jt, om2_SP = ss.jumpnetwork_omega2()
        n0 = len(ss.jumpnetwork_index)
        w0 = src.reals('w0', n0, 0, 2)
        w2 = src.reals('w2', max(len(om2_jn), 1), 0, 2)
        info = src.info(replayer='omega02', extra={'case': case})
        tol = 1e-9

        def ob(n, val):
            obs.append(('%s:%s' % (name, n), val, dict(info, sig='omega02:' + n)))
        field = {}
        for i in range(Nv):
            for s_, vv in zip(vs.vecpos[i], vs.vecvec[i]):
                field[(i, s_)] = np.asarray(vv, dtype=float)

        def close_all(A, B):
            return harness.close(np.asarray(A, dtype=object).ravel(), np.asarray(B, dtype=object).ravel(), tol)
        if om1_jn:
            r0, r0e, r1, r1e = vs.rateexpansions(om1_jn, om1_jt)
            b0, b1 = vs.biasexpansions(om1_jn, om1_jt)
            D0e, D1e = vs.bareexpansions(om1_jn, om1_jt)
            ob('omega1-shapes', np.asarray(r0).shape == (Nv, Nv, n0) and np.asarray(r0e).shape == (Nv, n0) and np.asarray(b0).shape == (Nv, n0)
               and np.asarray(D0e).shape == (dim, dim, n0) and np.asarray(r1).shape == (Nv, Nv, len(om1_jn)))
            W = np.zeros((Nv, Nv), dtype=object)
            E = np.zeros(Nv, dtype=object)
            B = np.zeros(Nv, dtype=object)
            D = np.zeros((dim, dim), dtype=object)
            for k, jl in enumerate(om1_jn):
                wk = w0[om1_jt[k]]
                for (IS, FS), dx in jl:
                    D = D + 0.5 * np.outer(dx, dx) * wk
                    for i in range(Nv):
                        if (i, IS) in field:
                            vi = field[(i, IS)]
                            E[i] = E[i] - float(np.dot(vi, vi)) * wk
                            B[i] = B[i] + float(np.dot(vi, dx)) * wk
                            for j in range(Nv):
                                if (j, FS) in field:
                                    W[i, j] = W[i, j] + float(np.dot(vi, field[(j, FS)])) * wk
            ob('rate0expansion', close_all(np.dot(r0, w0), W))
            ob('rate0escape', close_all(np.dot(r0e, w0), E))
            ob('bias0expansion', close_all(np.dot(b0, w0), B))
            ob('D0expansion', close_all(np.dot(D0e, w0), D))
        if om2_jn:
            r0, r0e, r2, r2e = vs.rateexpansions(om2_jn, om2_jt, omega2=True)
            b0, b2 = vs.biasexpansions(om2_jn, om2_jt, omega2=True)
            D0e, D2e = vs.bareexpansions(om2_jn, om2_jt)
            W2 = np.zeros((Nv, Nv), dtype=object)
            E2 = np.zeros(Nv, dtype=object)
            B2 = np.zeros(Nv, dtype=object)
            D2 = np.zeros((dim, dim), dtype=object)
            W0 = np.zeros((Nv, Nv), dtype=object)
            E0 = np.zeros(Nv, dtype=object)
            B0 = np.zeros(Nv, dtype=object)
            D0 = np.zeros((dim, dim), dtype=object)
            for k, jl in enumerate(om2_jn):
                wk, w0k = w2[k], w0[om2_jt[k]]
                for (IS, FS), dx in jl:
                    D2 = D2 + 0.5 * np.outer(dx, dx) * wk
                    D0 = D0 + 0.5 * np.outer(dx, dx) * w0k
                    OS = ss.stateindex(stars.PairState.zero(ss.states[IS].i, dim))
                    for i in range(Nv):
                        if (i, IS) in field:
                            vi = field[(i, IS)]
                            E2[i] = E2[i] - float(np.dot(vi, vi)) * wk
                            E0[i] = E0[i] - float(np.dot(vi, vi)) * w0k
                            B2[i] = B2[i] + float(np.dot(vi, dx)) * wk
                            B0[i] = B0[i] + float(np.dot(vi, dx)) * w0k
                            for j in range(Nv):
                                if (j, FS) in field:
                                    W2[i, j] = W2[i, j] + float(np.dot(vi, field[(j, FS)])) * wk
                                if OS is not None and (j, OS) in field:
                                    # without the solute the vacancy jumps onto the solute site: the origin state
                                    c = float(np.dot(vi, field[(j, OS)]))
                                    W0[i, j] = W0[i, j] + c * w0k
                                    W0[j, i] = W0[j, i] + c * w0k
                                    E0[j] = E0[j] - float(np.dot(field[(j, OS)], field[(j, OS)])) * w0k
                    if OS is not None:
                        for j in range(Nv):
                            if (j, OS) in field:
                                B2[j] = B2[j] - float(np.dot(field[(j, OS)], dx)) * wk
                                B0[j] = B0[j] - float(np.dot(field[(j, OS)], dx)) * w0k
            ob('rate2expansion', close_all(np.dot(r2, w2[:len(om2_jn)]), W2))
            ob('rate2escape', close_all(np.dot(r2e, w2[:len(om2_jn)]), E2))
            ob('bias2expansion', close_all(np.dot(b2, w2[:len(om2_jn)]), B2))
            ob('D2expansion', close_all(np.dot(D2e, w2[:len(om2_jn)]), D2))
            ob('rate0expansion-omega2', close_all(np.dot(r0, w0), W0))
            ob('rate0escape-omega2', close_all(np.dot(r0e, w0), E0))
            ob('bias0expansion-omega2', close_all(np.dot(b0, w0), B0))
            ob('D0expansion-omega2', close_all(np.dot(D0e, w0), D0))
        if sym:
            obs.append(('twin:%s' % name, harness.close([w0[0]], [w0[0] + 1e-6], tol)))
        return obs
    return fn


QUICK = ['square-2', 'sc-1', 'fcc-1', 'honeycomb-1', 'rect2-1', 'p222-1', 'oblique-c1-1', 'hcp-1']
THOROUGH = QUICK + ['square-1', 'honeycomb-2', 'tric-c1-1', 'sc-2', 'fcc-2']


def sections(tier):
    S = run.Section
    secs = []
    for c in (QUICK if tier == 'quick' else THOROUGH):
        secs.append(S('basis:' + c, basis_laws(c), budget_s=175 if tier == 'quick' else 1200, replayer='basis', config=c, maxpaths=4, timeout_ms=30000))
        secs.append(S('expand:' + c, expansion_laws(c), budget_s=175 if tier == 'quick' else 1200, replayer='expand', config=c, maxpaths=4, timeout_ms=60000))
        secs.append(S('outer:' + c, outer_laws(c), budget_s=175 if tier == 'quick' else 1200, replayer='outer', config=c, maxpaths=4, timeout_ms=60000))
        secs.append(S('omega02:' + c, omega02_laws(c), budget_s=175 if tier == 'quick' else 1200, replayer='omega02', config=c, maxpaths=4, timeout_ms=60000))
    return secs


def main():
    import warnings
    warnings.simplefilter('ignore')
    if REPLAY:
        run.replay_main('C25', {'basis': lambda rec: harness.run_laws_concrete(basis_laws(rec['extra']['case']), rec),
                                'expand': lambda rec: harness.run_laws_concrete(expansion_laws(rec['extra']['case']), rec),
                                'outer': lambda rec: harness.run_laws_concrete(outer_laws(rec['extra']['case']), rec),
                                'omega02': lambda rec: harness.run_laws_concrete(omega02_laws(rec['extra']['case']), rec)})
    V = stars.VectorStarSet
    chk = run.Check(
        'C25',
        functions=[loader.func_hash(f) for f in (V.generate, V.generateouter, V.GFexpansion, V.rateexpansions, V.biasexpansions, V.bareexpansions, V.originstateVectorBasisfolddown, stars.StarSet.jumpnetwork_omega2,
                                                 stars.StarSet.jumpnetwork_omega1, stars.PairState.g, crystal.Crystal.VectorBasis, crystal.Crystal.vectlist)],
        assumptions=[
            'crystals / networks / shells enumerated (square, SC, FCC, HCP, honeycomb, rect-2-site with origin states, a chiral P222 crystal, '
            'cells with C1 sites); origin states on',
            'completeness: symbolic vector in [-1,1]^d, invariance premise to 1e-9, span conclusion to 1e-6',
            'expansions: symbolic Green-function star values in [-1,1] (equal on ds and -ds: end-point symmetry of the lattice Green function) and omega1 rates in [0,2]; contraction == direct state-space assembly '
            'projected on the vector stars, to 1e-9 (GFexpansion, rate1expansion, rate1escape, bias1expansion, D1expansion; the omega0/omega2 '
            'variants and the origin-state fold-down are not covered)',
        ],
        explanation='Real VectorStarSet.generate and expansion builders; completeness of the vector stars and correctness of the expansions '
                    'decided by z3 for symbolic vectors / GF values / rates; orthonormality, counts and equivariance on the same run.',
        bounds='quick: %s; thorough: %s' % (QUICK, THOROUGH))
    chk.run(sections(chk.tier))
    chk.finish()


if __name__ == '__main__':
    main()
