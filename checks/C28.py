"""C28 Supercell occupancy bookkeeping: inductive step from an arbitrary consistent state.

Pre-state = ANY (occ, chemorder) satisfying the representation invariant (not merely states
reachable by a short history), one real operation with symbolic arguments, post-state must
satisfy the invariant and the operation's functional specification."""
import itertools

import numpy as np

from symx import run, loader

REPLAY = run.is_replay()
if REPLAY:
    loader.install_plain()
else:
    loader.install()

from onsager import crystal, supercell   # noqa: E402
from symx import core, harness   # noqa: E402
from symx.core import ENG, Sym   # noqa: E402
from symx.harness import Src   # noqa: E402

CBOUND = 10 ** 6


def configs():
    sc = crystal.Crystal(np.eye(3), [np.zeros(3)])
    two = crystal.Crystal(np.eye(3), [[np.zeros(3)], [np.array([0.5, 0.5, 0.5])]], chemistry=['A', 'I'])
    return {
        'sc2-s0': (sc, np.diag([2, 1, 1]), (), 0),
        'sc3-s1': (sc, np.diag([3, 1, 1]), (), 1),
        'sc3-s2': (sc, np.diag([3, 1, 1]), (), 2),
        'sc4-s2': (sc, np.diag([2, 2, 1]), (), 2),
        'ai2-s1': (two, np.diag([2, 1, 1]), (1,), 1),
        'ai2-s0': (two, np.diag([2, 1, 1]), (1,), 0),
    }


_BASE = {}


def base(cfg, nosym=True):
    key = (cfg, nosym)
    if key not in _BASE:
        crys, sl, inter, ns = configs()[cfg]
        _BASE[key] = supercell.Supercell(crys, sl, interstitial=inter, Nsolute=ns, NOSYM=nosym)
    return _BASE[key]


def shapes(n, nchem):
    return [c for c in itertools.product(range(n + 1), repeat=nchem) if sum(c) <= n]


def sym_state(src, sup, counts):
    """arbitrary state satisfying the representation invariant; counts = len(chemorder[c])"""
    n = sup.N * sup.size
    nchem = sup.Nchem
    if src.symbolic:
        occ = src.ints('occ', n, -1, nchem - 1)
        chemorder = [[src.int('co%d_%d' % (c, k), 0, n - 1) for k in range(counts[c])] for c in range(nchem)]
        allel = [e for l in chemorder for e in l]
        for a, b in itertools.combinations(allel, 2):
            ENG.assume(a != b)
        for c, l in enumerate(chemorder):
            for e in l:
                ENG.assume(core.Or(*[core.And(e == k, occ[k] == c) for k in range(n)]))
            cnt = sum([(occ[k] == c)._num() for k in range(n)])
            ENG.assume(cnt == len(l))
    else:
        occ = src.ints('occ', n)
        chemorder = [[src.int('co%d_%d' % (c, k)) for k in range(counts[c])] for c in range(nchem)]
    return occ, chemorder


def invariant(sup, occ, chemorder):
    """representation invariant as one formula / bool: occ in range, chemorder lists hold
    distinct sites with the right occupation, every occupied site is listed exactly once"""
    n = len(occ)
    nchem = sup.Nchem
    conds = []
    if len(chemorder) != nchem:
        return False
    allel = [e for l in chemorder for e in l]
    for a, b in itertools.combinations(allel, 2):
        conds.append(a != b)
    for o in occ:
        conds.append(o >= -1)
        conds.append(o < nchem)
    for c, l in enumerate(chemorder):
        for e in l:
            conds.append(e >= 0)
            conds.append(e < n)
            conds.append(core.Or(*[core.And(e == k, occ[k] == c) for k in range(n)]) if any(
                isinstance(x, (Sym, core.SymBool)) for x in [e] + list(occ)) else bool(occ[int(e)] == c))
        terms = [(occ[k] == c) for k in range(n)]
        if any(isinstance(t, core.SymBool) for t in terms):
            conds.append(sum([core.sb(t)._num() for t in terms]) == len(l))
        else:
            conds.append(sum(int(bool(t)) for t in terms) == len(l))
    if any(isinstance(x, core.SymBool) for x in conds):
        return core.And(*conds)
    return all(bool(x) for x in conds)


def same_state(occ0, co0, occ1, co1):
    if len(co0) != len(co1) or any(len(a) != len(b) for a, b in zip(co0, co1)):
        return False
    conds = [a == b for a, b in zip(occ0, occ1)]
    conds += [a == b for l0, l1 in zip(co0, co1) for a, b in zip(l0, l1)]
    if any(isinstance(x, core.SymBool) for x in conds):
        return core.And(*conds)
    return all(bool(x) for x in conds)


def snapshot(sup):
    return list(sup.occ), [list(l) for l in sup.chemorder]


def install_state(sup, occ, chemorder):
    sup.occ = occ.copy() if hasattr(occ, 'copy') else np.array(occ)
    sup.chemorder = [list(l) for l in chemorder]


def pick_shape(src, cfg, sup):
    n = sup.N * sup.size
    shp = shapes(n, sup.Nchem)
    sid = src.int('shape', 0, len(shp) - 1)
    sid = int(sid)      # solver-driven case split over the count shapes
    return shp[sid]


# ---- operations -----------------------------------------------------------------------
def op_setocc(cfg, via_setitem=False):
    def fn(src=None):
        src = src or Src()
        name = 'setocc:%s' % cfg
        sup = base(cfg).copy()
        n = sup.N * sup.size
        counts = pick_shape(src, cfg, sup)
        occ, chemorder = sym_state(src, sup, counts)
        install_state(sup, occ, chemorder)
        # python-style negative indices are documented as safe by the library's own tests (setocc(-1, c)): -k means site n-k
        ind = src.int('ind', -n, n - 1)
        c = src.int('c', -CBOUND, CBOUND)
        occ0, co0 = snapshot(sup)
        obs = []

        def ob(nm, v, sig=None):
            obs.append(('%s:%s' % (name, nm), v, src.info(sig='setocc:' + (sig or nm), replayer='setocc', extra={'cfg': cfg})))
        declared = core.And(c >= -1, c < sup.Nchem) if src.symbolic else (-1 <= c < sup.Nchem)
        indraw = int(ind)
        indc = indraw if indraw >= 0 else n + indraw
        try:
            if via_setitem:
                sup[indraw] = c
            else:
                sup.setocc(indraw, c)
            raised = None
        except IndexError:
            raised = 'IndexError'
        except Exception as e:   # noqa
            raised = type(e).__name__
        occ1, co1 = snapshot(sup)
        if raised == 'IndexError':
            ob('rejected-only-undeclared', core.Not(declared) if src.symbolic else (not declared))
            ob('rejected-leaves-state', same_state(occ0, co0, occ1, co1))
        elif raised is not None:
            ob('unexpected-exception', False, 'unexpected-exception:' + raised)
        else:
            ob('accepted-only-declared', declared)
            ob('post-invariant', invariant(sup, occ1, co1))
            ob('occ-set', occ1[indc] == c)
            ob('others-untouched', harness.exact_eq([occ1[k] for k in range(n) if k != indc],
                                                    [occ0[k] for k in range(n) if k != indc]))
            # order preservation: every list is the old list minus ind, plus ind appended to list c
            changed = bool(occ0[indc] != c)
            for cc in range(sup.Nchem):
                old = [e for e in co0[cc]]
                new = co1[cc]
                if changed:
                    exp = [e for e in old if not bool(e == indc)]
                    if bool(c == cc):
                        exp = exp + [indc]
                else:
                    exp = old
                ob('order-%d' % cc, len(exp) == len(new) and harness.exact_eq(exp, new), 'order')
            if src.symbolic:
                obs.append(('twin:%s:occ-unchanged' % name, harness.exact_eq(occ1, occ0) if changed else False))
        return obs
    return fn


def op_reorder(cfg):
    def fn(src=None):
        src = src or Src()
        name = 'reorder:%s' % cfg
        sup = base(cfg).copy()
        counts = pick_shape(src, cfg, sup)
        occ, chemorder = sym_state(src, sup, counts)
        # __sane__ puts the listed sites into a set next to concrete indices: case-split them first
        chemorder = [[int(e) for e in l] for l in chemorder]
        install_state(sup, occ, chemorder)
        mapping = [[src.int('map%d_%d' % (c, k), 0, counts[c]) for k in range(counts[c])] for c in range(sup.Nchem)]
        occ0, co0 = snapshot(sup)
        obs = []

        def ob(nm, v):
            obs.append(('%s:%s' % (name, nm), v, src.info(sig='reorder:' + nm, replayer='reorder', extra={'cfg': cfg})))
        # the caller may hand over FEWER per-species maps than there are species (zip would silently drop the rest)
        nl = int(src.int('nlists', 0, sup.Nchem))
        isperm = nl == sup.Nchem and all(sorted(int(m) for m in cmap) == list(range(len(cmap))) for cmap in mapping)
        try:
            mp = [[int(m) for m in cmap] for cmap in mapping][:nl]
            r = sup.reorder(mp)
            raised = None
        except ValueError:
            raised = 'ValueError'
        except IndexError:
            raised = 'IndexError'
        occ1, co1 = snapshot(sup)
        if raised is None:
            ob('accepted-only-permutation', isperm)
            ob('post-invariant', invariant(sup, occ1, co1))
            ob('occ-unchanged', harness.exact_eq(occ1, occ0))
            for c in range(min(sup.Nchem, len(mp), len(co1))):
                ob('order-%d' % c, harness.exact_eq(co1[c], [co0[c][mp[c][i]] for i in range(len(mp[c]))]))
            ob('returns-self', r is sup)
        else:
            ob('rejected-only-non-permutation', not isperm)
            ob('rejected-leaves-state', same_state(occ0, co0, occ1, co1))
        return obs
    return fn


def op_imul(cfg, gstride=1):
    def fn(src=None):
        src = src or Src()
        name = 'imul:%s' % cfg
        b = base(cfg, nosym=False)
        G = sorted(b.G, key=lambda g: g.indexmap)
        if gstride > 1:
            G = G[run.seed() % gstride::gstride]
        sup = b.copy()
        n = sup.N * sup.size
        counts = pick_shape(src, cfg, sup)
        occ, chemorder = sym_state(src, sup, counts)
        gi = int(src.int('g', 0, len(G) - 1))
        g = G[gi]
        install_state(sup, occ, chemorder)
        occ0, co0 = snapshot(sup)
        obs = []

        def ob(nm, v):
            obs.append(('%s:%s' % (name, nm), v, src.info(sig='imul:' + nm, replayer='imul', extra={'cfg': cfg})))
        sup *= g
        occ1, co1 = snapshot(sup)
        imap = g.indexmap[0]
        ob('post-invariant', invariant(sup, occ1, co1))
        ob('occ-permuted', harness.exact_eq([occ1[imap[k]] for k in range(n)], occ0))
        for c in range(sup.Nchem):
            ob('order-%d' % c, len(co1[c]) == len(co0[c]) and harness.exact_eq(co1[c], [imap[int(e)] for e in co0[c]]))
        # g then g^-1 restores the state; the non-inplace product leaves the original alone
        inv = [0] * n
        for k, v in enumerate(imap):
            inv[v] = k
        ginv = [h for h in G if list(h.indexmap[0]) == inv]
        if ginv:
            sup2 = sup * ginv[0]
            ob('inverse-restores', same_state(occ0, co0, *snapshot(sup2)))
            ob('mul-leaves-original', same_state(occ1, co1, *snapshot(sup)))
        return obs
    return fn


def op_fill(cfg):
    def fn(src=None):
        src = src or Src()
        name = 'fill:%s' % cfg
        sup = base(cfg).copy()
        n = sup.N * sup.size
        counts = pick_shape(src, cfg, sup)
        occ, chemorder = sym_state(src, sup, counts)
        install_state(sup, occ, chemorder)
        ai = int(src.int('atom', 0, len(sup.atomindices) - 1))
        wy = bool(int(src.int('wyckoff', 0, 1)))
        ci = sup.atomindices[ai]
        occ0, co0 = snapshot(sup)
        obs = []

        def ob(nm, v):
            obs.append(('%s:%s' % (name, nm), v, src.info(sig='fill:' + nm, replayer='fill', extra={'cfg': cfg})))
        r = sup.fillperiodic(ci, Wyckoff=wy)
        occ1, co1 = snapshot(sup)
        ind = sup.indexatom[ci]
        wset = next(ws for ws in sup.Wyckofflist if ind in ws) if wy else (ind,)
        target = sorted(k * sup.N + i for k in range(sup.size) for i in wset)
        ob('post-invariant', invariant(sup, occ1, co1))
        ob('filled', harness.exact_eq([occ1[k] for k in target], [ci[0]] * len(target)))
        ob('others-untouched', harness.exact_eq([occ1[k] for k in range(n) if k not in target],
                                                [occ0[k] for k in range(n) if k not in target]))
        ob('returns-self', r is sup)
        return obs
    return fn


def op_copy(cfg):
    def fn(src=None):
        src = src or Src()
        name = 'copy:%s' % cfg
        sup = base(cfg).copy()
        n = sup.N * sup.size
        counts = pick_shape(src, cfg, sup)
        occ, chemorder = sym_state(src, sup, counts)
        install_state(sup, occ, chemorder)
        ind = int(src.int('ind', 0, n - 1))
        c = int(src.int('c', -1, sup.Nchem - 1))
        occ0, co0 = snapshot(sup)
        obs = []

        def ob(nm, v):
            obs.append(('%s:%s' % (name, nm), v, src.info(sig='copy:' + nm, replayer='copy', extra={'cfg': cfg})))
        cp = sup.copy()
        ob('copy-equal-state', same_state(occ0, co0, *snapshot(cp)))
        cp.setocc(ind, c)
        ob('edit-of-copy-leaves-original', same_state(occ0, co0, *snapshot(sup)))
        sup.setocc(ind, -1)
        occ2, co2 = snapshot(cp)
        ob('edit-of-original-leaves-copy', occ2[ind] == c)
        return obs
    return fn


def op_poscar(cfg):
    def fn(src=None):
        src = src or Src()
        name = 'poscar:%s' % cfg
        sup = base(cfg).copy()
        counts = pick_shape(src, cfg, sup)
        occ, chemorder = sym_state(src, sup, counts)
        install_state(sup, occ, chemorder)
        occ0, co0 = snapshot(sup)
        obs = []

        def ob(nm, v):
            obs.append(('%s:%s' % (name, nm), v, src.info(sig='poscar:' + nm, replayer='poscar', extra={'cfg': cfg})))
        # the text is concrete on each path (positions are looked up through the symbolic order)
        sup.chemorder = [[int(e) for e in l] for l in sup.chemorder]
        text = sup.POSCAR('x')
        new = base(cfg).copy()
        # start the reader from a different arbitrary state: EMPTY_SUPER must wipe it
        new.fillperiodic(new.atomindices[0])
        try:
            new.POSCAR_occ(text)
            ok = True
        except Exception as e:   # noqa
            ob('read-raises', False)
            ok = False
        if ok:
            occ1, co1 = snapshot(new)
            ob('roundtrip-occ', harness.exact_eq(occ1, occ0))
            ob('roundtrip-order', same_state(occ0, co0, occ1, co1))
            ob('post-invariant', invariant(new, occ1, co1))
        return obs
    return fn


OPS = {'setocc': op_setocc, 'setitem': lambda cfg: op_setocc(cfg, True), 'reorder': op_reorder, 'imul': op_imul,
       'fill': op_fill, 'copy': op_copy, 'poscar': op_poscar}


def sections(tier):
    S = run.Section
    secs = []
    if tier == 'quick':
        plan = {'sc2-s0': ('setocc', 'reorder', 'imul', 'fill', 'copy', 'poscar'),
                'sc3-s1': ('setocc', 'reorder', 'imul4', 'fill', 'copy', 'poscar'),
                'sc3-s2': ('setocc', 'poscar'),
                'ai2-s0': ('setocc', 'fill', 'copy', 'poscar')}
        budget = 150
    else:
        allops = ('setocc', 'setitem', 'reorder', 'imul', 'fill', 'copy', 'poscar')
        plan = {c: allops for c in ('sc2-s0', 'sc3-s1', 'sc3-s2', 'ai2-s0', 'ai2-s1')}
        plan['sc4-s2'] = ('setocc', 'reorder', 'imul4', 'fill', 'copy', 'poscar')
        budget = 1500
    for cfg, ops in plan.items():
        for op in ops:
            fn = op_imul(cfg, 4) if op == 'imul4' else OPS[op](cfg)
            rp = {'setitem': 'setocc', 'imul4': 'imul'}.get(op, op)
            secs.append(S('%s:%s' % (op, cfg), fn, maxpaths=50000, budget_s=budget, replayer=rp, config=cfg, timeout_ms=10000))
    return secs


def _replayers():
    R = {}
    for op in ('setocc', 'reorder', 'imul', 'fill', 'copy', 'poscar'):
        R[op] = lambda rec, op=op: harness.run_laws_concrete(OPS[op](rec['extra']['cfg']), rec)
    return R


def main():
    import warnings
    warnings.simplefilter('ignore')
    if REPLAY:
        run.replay_main('C28', _replayers())
    SC = supercell.Supercell
    chk = run.Check(
        'C28',
        functions=[loader.func_hash(f) for f in (SC.setocc, SC.__setitem__, SC.reorder, SC.__imul__, SC.__mul__,
                                                 SC.fillperiodic, SC.copy, SC.POSCAR, SC.POSCAR_occ, SC.__sane__,
                                                 SC.occposlist, SC.index)],
        assumptions=[
            'pre-state is ANY (occ, chemorder) satisfying the representation invariant (occ in [-1,Nchem-1]; chemorder lists '
            'hold distinct sites whose occupation is the list index; every occupied site listed exactly once)',
            'species argument c is an arbitrary integer with |c| <= 10^6 (numpy int64 wrap-around outside the claim)',
            'supercells enumerated from a list (2-4 sites, Nsolute 0..2, with/without interstitial sublattice); group '
            'operations enumerated from the supercell group',
            'POSCAR round trip: text is concrete per path (the symbolic ordering is case-split by the solver)',
        ],
        explanation='Inductive step: one real Supercell operation executed on a symbolic state (occupation vector, order inside '
                    'each chemorder list, count shape) with symbolic arguments; post-condition = invariant + functional '
                    'specification, decided by z3 on every feasible path.  Covers edit histories of any length because the '
                    'invariant is inductive.',
        bounds='supercells: SC 2x1x1 (Nsolute 0), SC 3x1x1 (Nsolute 1,2), host+interstitial 2x1x1 (Nsolute 0) [quick]; plus SC '
               '2x2x1 (Nsolute 2), host+interstitial (Nsolute 1) [thorough]; every count shape; ops setocc/__setitem__/reorder/'
               '__imul__/__mul__/fillperiodic/copy/POSCAR+POSCAR_occ')
    chk.run(sections(chk.tier))
    chk.finish()


if __name__ == '__main__':
    main()
