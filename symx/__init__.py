"""symx: solver-based execution of the real Onsager code (see /verif/DESIGN.md)."""
