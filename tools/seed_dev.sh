#!/bin/sh
# seed_dev.sh <seed-name> [check-id] : apply a seeded change to a scratch worktree (/tmp/wt/dev, created if missing),
# run the property's quick check against it (ONSAGER_REPO), undo.  /repo itself is not touched.
cd /verif
s="$1"; d=seeded/$s
WT=${DEVWT:-/tmp/wt/dev}
[ -d $WT ] || git -C /repo worktree add -q --detach $WT HEAD
prop=$(/venv/bin/python -c "import json;m=json.load(open('$d/meta.json'));print(m.get('run_check', m['property']))")
c=${2:-$prop}
git -C $WT checkout -q -- . && git -C $WT apply $PWD/$d/patch.diff || { echo "patch does not apply"; exit 2; }
t0=$(date +%s)
VERIF_REPLAY_DIR=/verif/replays/$s ONSAGER_REPO=$WT ./check $c --tier ${TIER:-quick} > /tmp/seeddev_$s.log 2>&1; rc=$?
t1=$(date +%s)
git -C $WT checkout -q -- .
echo "$s	$c	${TIER:-quick}	exit=$rc	$((t1-t0))s	$(grep -c '^VIOLATION' /tmp/seeddev_$s.log) violation-lines"
grep -E "^(VIOLATION|HARNESS-ERROR|  obligation)" /tmp/seeddev_$s.log | cut -c1-400 | head -6
