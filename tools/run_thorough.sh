#!/bin/sh
# run every claimed check's thorough tier once, sequentially; summary lines to stdout
cd "$(dirname "$0")/.."
[ -n "$VP_RUN_REPO" ] && export ONSAGER_REPO="$VP_RUN_REPO"
for id in ${IDS:-C32 C34 C19 C22 C24 C26 C25 C11 C12 C17 C13 C31 C21 C23 C35 C28 C33 C36 C18 C20 C15 C14 C16 C04 C02 C03 C05}; do
  t0=$(date +%s)
  ./check $id --tier thorough > /tmp/thorough_$id.log 2>&1; rc=$?
  t1=$(date +%s)
  echo "$id exit=$rc wall=$((t1-t0))s $(grep 'tier=thorough' /tmp/thorough_$id.log | cut -c1-260)"
  grep -E "^(VIOLATION|HARNESS-ERROR|KNOWN-FINDING)" /tmp/thorough_$id.log | cut -c1-300 | head -5
done
