"""C03 transport tensors are symmetric, crystal-invariant and positive semidefinite (interstitial part).

Real Interstitial.diffusivity / elastodiffusion on solver terms: D == D^T, R D R^T == D for every
point-group operation, v^T D v >= 0 for a symbolic direction v (through the sum-of-squares
certificate), and the index symmetries / invariance of the elastodiffusion tensor for arbitrary
symbolic dipoles."""
import itertools
import sys

import numpy as np

from symx import run, loader

REPLAY = run.is_replay()
if REPLAY:
    loader.install_plain()
else:
    loader.install()

from onsager import OnsagerCalc   # noqa: E402
from symx import core, harness, contracts, shim   # noqa: E402
from symx.core import ENG, Sym   # noqa: E402
from symx.shim import SymArray   # noqa: E402
sys.path.insert(0, __file__.rsplit('/', 1)[0])
import inter   # noqa: E402


PSD_TO = [20000]


def rotations(crys):
    out = []
    for g in sorted(crys.G, key=lambda g: g.rot.tolist()):
        R = np.array(g.cartrot)
        assert all(inter.dyadic(c) for c in R.flat)
        if not any(np.array_equal(R, Q) for Q in out):
            out.append(R)
    return out


def diffusivity_laws(cname):
    def fn():
        crys, calc, jn = inter.get_calc(cname)
        name = 'D:' + cname
        inp = inter.Inputs(calc)
        D, cap = inter.run_diffusivity(calc, inp)
        dim = calc.dim
        if 'pinv' in ENG.records:
            # uniqueness instance of the Moore-Penrose contract: the transpose is offered as candidate
            # (it satisfies the four equations iff the projected rate matrix is symmetric)
            A, X = ENG.records['pinv'][0]
            contracts.unique_pinv_hint((A, X), np.asarray(X, dtype=object).T)
        info = {'inputs': inp.inputs, 'replayer': 'D', 'extra': {'crystal': cname},
                'probe': [inter.concrete_instance(inp, k) for k in (0, 4)] + inter.witness_instances(calc, inp)}
        obs = []

        def ob(n, v, **kw):
            obs.append(('%s:%s' % (name, n), v, dict(info, sig='D:' + n.split('-')[0], **kw)))
        for a in range(dim):
            for c in range(a + 1, dim):
                ob('symmetric-%d%d' % (a, c), D[a, c] == D[c, a])
        for k, R in enumerate(rotations(crys)):
            RD = np.dot(R, np.dot(D, R.T))
            ob('invariant-g%d' % k, harness.exact_eq(RD, D))
        # positive semidefinite through the sum-of-squares certificate (DESIGN 2.1)
        v = SymArray([Sym(core.z3.Real('v%d' % a)) for a in range(dim)])
        vin = dict(inp.inputs)
        for a in range(dim):
            vin['v%d' % a] = v[a]
        pinfo = dict(info, inputs=vin)
        sq, _ = inter.code_sqrt_rho(calc, inp)
        lhs, b, Dref, rho, g, rates = inter.reference(calc, inp, cap['gamma'], sq)
        vDv = np.dot(v, np.dot(D, v))
        phi = [np.dot(v, g[i]) for i in range(calc.N)]
        terms = []
        for (i, j, dx, W, t) in rates:
            e = np.dot(v, dx) - phi[j] + phi[i]
            terms.append((rho[i] * W, e))
        sos = sum(0.5 * c * e * e for c, e in terms)
        for a in range(dim):
            ob('diag-nonneg-%d' % a, D[a, a] >= 0, timeout_ms=30000 if 'pinv' not in ENG.records else 8000)
        # mirror/rotation symmetry may force the off-diagonal entries to vanish: then PSD follows from the diagonal.
        for a in range(dim):
            for c in range(dim):
                if a != c:
                    obs.append(('lemma:%s:offdiag-zero-%d%d' % (name, a, c), D[a, c] == 0, {'timeout_ms': 10000 if 'pinv' not in ENG.records else 1200}))
        # lemma chain: abstract entries d_ac with the lemmas proven above as hypotheses |- v^T d v >= 0
        d = [[core.z3.Real('d_%d_%d' % (a, c)) for c in range(dim)] for a in range(dim)]
        hyps = [d[a][a] >= 0 for a in range(dim)] + [d[a][c] == 0 for a in range(dim) for c in range(dim) if a != c]
        quad = sum(v[a].z * v[c].z * d[a][c] for a in range(dim) for c in range(dim))
        req = ['%s:diag-nonneg-%d' % (name, a) for a in range(dim)] + \
              ['lemma:%s:offdiag-zero-%d%d' % (name, a, c) for a in range(dim) for c in range(dim) if a != c]
        obs.append(('%s:psd-chain-diagonal' % name, core.z3.Implies(core.z3.And(*hyps), quad >= 0),
                    {'requires': req, 'sig': 'D:psd'}))
        # general route: sum-of-squares certificate, then the direct query (both may stay inconclusive: reported)
        if not PSD_TO[0]:
            obs.append(('twin:%s:D00-negative' % name, D[0, 0] <= 0, {'hyp': inter.concrete_instance(inp), 'timeout_ms': 20000}))
            return obs
        obs.append(('%s:psd-sos-weights-nonneg' % name, core.And(*[c >= 0 for c, e in terms]), dict(pinfo, sig='D:psd')))
        obs.append(('%s:psd-sos-identity' % name, vDv == sos, dict(pinfo, sig='D:psd', timeout_ms=PSD_TO[0])))
        obs.append(('%s:psd-direct' % name, vDv >= 0, dict(pinfo, sig='D:psd', timeout_ms=PSD_TO[0])))
        tw = {'hyp': inter.concrete_instance(inp), 'timeout_ms': 20000}
        obs.append(('twin:%s:D00-negative' % name, D[0, 0] <= 0, tw))
        return obs
    return fn


def replay_D(rec):
    cname = rec['extra']['crystal']
    crys, calc, jn = inter.get_calc(cname)
    inp = inter.Inputs(calc, vals=rec['inputs'])
    D = calc.diffusivity(*inp.arrays(symbolic=False))
    sc = max(np.abs(D).max(), 1e-300)
    bad = []
    if np.abs(D - D.T).max() > 1e-9 * sc:
        bad.append('not symmetric')
    for R in rotations(crys):
        if np.abs(np.dot(R, np.dot(D, R.T)) - D).max() > 1e-9 * sc:
            bad.append('not invariant under %s' % R.tolist())
            break
    if np.linalg.eigvalsh(0.5 * (D + D.T)).min() < -1e-9 * sc:
        bad.append('not positive semidefinite')
    if bad:
        return True, 'D=%s: %s (inputs %s)' % (D.tolist(), ', '.join(bad), rec['inputs'])
    return False, 'D symmetric, invariant, PSD'


# ---- elastodiffusion: linear in the dipoles -------------------------------------------------
EGRID = [0.0, 0.25, -0.5, 0.75, 0.5, -0.25, 1.0, 0.125, -0.125]
TGRID = [1.0, 1.5, 0.75, 1.25, 2.0, 1.75, 0.5, 1.125, 1.625, 0.875]


def elasto_laws(cname, k):
    """energies on a fixed grid (instance k), ALL dipole components symbolic (the tensor is linear in them)"""
    def fn(src=None):
        crys, calc, jn = inter.get_calc(cname)
        name = 'elasto:%s:%d' % (cname, k)
        dim = calc.dim
        nw, nt = len(calc.sitelist), len(jn)
        E = np.array([EGRID[(w + k) % len(EGRID)] for w in range(nw)])
        T = np.array([TGRID[(t + 2 * k) % len(TGRID)] for t in range(nt)])
        pre = np.array([1.0 + 0.25 * ((w + k) % 3) for w in range(nw)])
        preT = np.array([1.0 + 0.5 * ((t + k) % 2) for t in range(nt)])
        src = src or harness.Src()
        dip = [src.reals('P%d' % w, (dim, dim), -1, 1) for w in range(nw)]
        dipT = [src.reals('PT%d' % t, (dim, dim), -1, 1) for t in range(nt)]
        with shim.symbolic_mode():
            D0, Dp = calc.elastodiffusion(pre, E, dip, preT, T, dipT)
        obs = []
        tol = 1e-9
        info = src.info(replayer='elasto', extra={'crystal': cname, 'k': k})

        def ob(n, v):
            obs.append(('%s:%s' % (name, n), v, dict(info, sig='elasto:' + n.split('-')[0])))
        conds_ab, conds_cd = [], []
        for a, b, c, d in itertools.product(range(dim), repeat=4):
            if a < b:
                conds_ab.append(harness.close([Dp[a, b, c, d]], [Dp[b, a, c, d]], tol))
            if c < d:
                conds_cd.append(harness.close([Dp[a, b, c, d]], [Dp[a, b, d, c]], tol))
        ob('symmetric-ab', core.And(*conds_ab) if src.symbolic else all(conds_ab))
        ob('symmetric-cd', core.And(*conds_cd) if src.symbolic else all(conds_cd))
        for gi, R in enumerate(rotations(crys)):
            RDp = np.einsum('ai,bj,ck,dl,ijkl->abcd', R, R, R, R, np.asarray(Dp, dtype=object)) if False else rot4(R, Dp)
            ob('invariant-g%d' % gi, harness.close(np.asarray(RDp, dtype=object).ravel(), np.asarray(Dp, dtype=object).ravel(), tol))
        if src.symbolic:
            obs.append(('twin:%s:zero' % name, harness.close([Dp[0, 0, 0, 0]], [Dp[0, 0, 0, 0] + 1e-6], tol)))
        return obs
    return fn


def rot4(R, T):
    dim = R.shape[0]
    T = np.asarray(T, dtype=object)
    out = np.zeros((dim,) * 4, dtype=object)
    for a, b, c, d in itertools.product(range(dim), repeat=4):
        s = 0
        for i, j, k, l in itertools.product(range(dim), repeat=4):
            f = R[a, i] * R[b, j] * R[c, k] * R[d, l]
            if f != 0:
                s = s + f * T[i, j, k, l]
        out[a, b, c, d] = s
    return out


def sections(tier):
    S = run.Section
    secs = []
    PSD_TO[0] = 0 if tier == 'quick' else 120000   # quick: PSD by lemma chain only; thorough: also SOS certificate + direct query
    if tier == 'quick':
        plan = [('X1s', 60000, 170), ('X1', 60000, 170), ('X4r', 60000, 170), ('X2', 10000, 170), ('X5', 10000, 170), ('X1si', 60000, 170)]
        eplan = [('X1s', 0), ('X1', 1), ('X2', 0), ('X5', 0), ('X5', 1), ('X1si', 1)]
    else:
        plan = [('X1s', 120000, 1200), ('X1', 120000, 1200), ('X4r', 120000, 1200), ('X2', 120000, 1200), ('X3', 120000, 1200)]
        eplan = [(c, k) for c in ('X1s', 'X1', 'X4r', 'X2', 'X3', 'X5') for k in range(3)]
    for c, to, bud in plan:
        secs.append(S('D:' + c, diffusivity_laws(c), timeout_ms=to, budget_s=bud, replayer='D', config=c, maxpaths=16))
    for c, k in eplan:
        secs.append(S('elasto:%s:%d' % (c, k), elasto_laws(c, k), timeout_ms=60000, budget_s=170 if tier == 'quick' else 1200,
                      replayer='elasto', config=c, maxpaths=16))
    return secs


def main():
    import warnings
    warnings.simplefilter('ignore')
    if REPLAY:
        run.replay_main('C03', {'D': replay_D,
                                'elasto': lambda rec: harness.run_laws_concrete(elasto_laws(rec['extra']['crystal'], rec['extra']['k']), rec)})
    I = OnsagerCalc.Interstitial
    chk = run.Check(
        'C03',
        functions=[loader.func_hash(f) for f in (I.diffusivity, I.elastodiffusion, I.siteDipoles, I.jumpDipoles, I.siteprob,
                                                 I.ratelist, I.symmratelist)],
        assumptions=[
            'interstitial tensors only: the four vacancy-mediated tensors are NOT covered (vector-star bases contain irrational '
            'constants and the Dyson inverse acts on a numerically integrated Green function): a change that only breaks the symmetry of '
            'Lij output is not detected by this check',
            'diffusivity laws: exact verification crystals, all energies/prefactors symbolic (see C02 for the contracts)',
            'positive semidefiniteness: decided through the sum-of-squares identity v^T D v = 1/2 sum rho W (v.dx - phi_j + phi_i)^2 '
            'with phi = v.g built from the code\'s own bias solution, plus non-negativity of the weights; the direct query is also asked',
            'elastodiffusion laws: energies/prefactors on a fixed dyadic grid (enumerated instances), ALL dipole components symbolic in '
            '[-1,1] (the tensor is linear in them), equalities to 1e-9',
        ],
        explanation='Real diffusivity / elastodiffusion executed on z3 terms; symmetry, invariance under every point-group operation '
                    'and positive semidefiniteness decided by z3 for all energies/prefactors (diffusivity) and all dipoles (elastodiffusion).',
        bounds='diffusivity: X1s, X1, X4r (quick) + X2, X3 (thorough); elastodiffusion: X1s, X1, X2, X5 (three coupled site classes) grid instances (quick), '
               '6 crystals x 3 instances (thorough)')
    chk.run(sections(chk.tier))
    chk.finish()


if __name__ == '__main__':
    main()
