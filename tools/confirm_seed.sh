#!/bin/sh
# confirm_seed.sh <ID> <worktree> : confirm a seeded change (demo fails with / passes without; suite still passes)
# writes <worktree>/_seed/confirm.txt
ID="$1"; WT="$2"
cd "$WT" || exit 2
OUT="$WT/_seed/confirm.txt"
: > "$OUT"
git -C "$WT" diff --quiet -- onsager && { echo "patch not applied" >> "$OUT"; }
PYTHONPATH="$WT" /venv/bin/python _seed/demo.py > _seed/demo_with.log 2>&1; echo "demo_with_patch_exit=$?" >> "$OUT"
git -C "$WT" apply -R _seed/patch.diff
PYTHONPATH="$WT" /venv/bin/python _seed/demo.py > _seed/demo_without.log 2>&1; echo "demo_without_patch_exit=$?" >> "$OUT"
git -C "$WT" apply _seed/patch.diff
PYTHONPATH="$WT" /venv/bin/python -m pytest -q -p no:cacheprovider --timeout=900 --continue-on-collection-errors test 2>&1 | tail -8 > _seed/suite.log
echo "suite: $(tail -1 _seed/suite.log)" >> "$OUT"
grep -E "^(FAILED|ERROR)" _seed/suite.log >> "$OUT"
cat "$OUT"
