"""C26 solute-vacancy jump networks classify every transition exactly once.

Structure (crystal, network, shells / thermodynamic range) is enumerated.  Decided by the solver for a SYMBOLIC transition: an
initial pair state with symbolic lattice vector R (site indices case-split) and one jump of the vacancy network leaving its
vacancy site (case-split):
 * swing jumps: initial and final state both non-zero members of the star set  =>  the transition (with the vacancy's
   displacement) belongs to EXACTLY ONE class of jumpnetwork_omega1();
 * exchanges: the jump lands on the solute  =>  the transition (state -> reversed state, displacement = minus the pair vector)
   belongs to EXACTLY ONE class of jumpnetwork_omega2();
 * VacancyMediated.generate: after pruning, every swing jump that starts OR ends in the thermodynamic range is still in exactly one
   class of om1_jn.
On the same run, as replayable constant obligations: every listed entry is a genuine single jump with the vacancy's displacement,
classes are closed under the space group and under reversal, and no entry is listed twice."""
import sys

import numpy as np

from symx import run, loader

REPLAY = run.is_replay()
if REPLAY:
    loader.install_plain()
else:
    loader.install()

from onsager import crystal, crystalStars as stars, OnsagerCalc   # noqa: E402
from symx import core, harness, shim   # noqa: E402
from symx.harness import Src   # noqa: E402
sys.path.insert(0, __file__.rsplit('/', 1)[0])
import geom   # noqa: E402
import C24 as S24   # noqa: E402
import C14 as hist   # noqa: E402

PS = stars.PairState


def jumps_from(crys, chem, jn):
    """site j -> list of (k, dR, dx) single vacancy jumps (lattice form rebuilt from the Cartesian vectors)"""
    out = {}
    for jl in jn:
        for (j, k), dx in jl:
            dR = np.round(np.dot(crys.invlatt, dx) - crys.basis[chem][k] + crys.basis[chem][j]).astype(int)
            out.setdefault(j, []).append((k, tuple(int(x) for x in dR), np.asarray(dx, dtype=float)))
    return out


def eq_state(i, j, R, t):
    """formula: the symbolic state (i, j, R) is the concrete tuple t"""
    if (i, j) != (t[0], t[1]):
        return False
    return core.And(*[R[k] == t[2][k] for k in range(len(t[2]))])


def class_formulas(classes, S, i, j, R, k, R2, dxJ, exchange=False):
    """per class: the symbolic transition (i,j,R) -> (i,k,R2) [exchange: -> reversed state] with displacement dxJ is one of its entries"""
    out = []
    for cl in classes:
        alts = []
        for (a, b), dx in cl:
            if not np.allclose(np.asarray(dx, dtype=float), dxJ, atol=1e-7):
                continue
            ta, tb = S[a], S[b]
            ea = eq_state(i, j, R, ta)
            if ea is False:
                continue
            if exchange:
                # final state must be the reversed initial state
                if (tb[0], tb[1]) != (ta[1], ta[0]) or tuple(-x for x in ta[2]) != tb[2]:
                    continue
                alts.append(ea)
            else:
                eb = eq_state(i, k, R2, tb)
                if eb is False:
                    continue
                alts.append(core.And(ea, eb))
        out.append(core.Or(*alts) if alts else False)
    return out


def exactly_one(fs):
    fs = [f for f in fs if f is not False]
    if not fs:
        return False
    conds = [core.Or(*fs)]
    for a in range(len(fs)):
        for b in range(a + 1, len(fs)):
            conds.append(core.Not(core.And(fs[a], fs[b])))
    return core.And(*conds)


def vm_configs():
    """VacancyMediated configurations: C14's plus strongly anisotropic ones, where a state that needs Nthermo+1 jumps lies nearer to
    the solute than a state inside the thermodynamic range (the kinetic stars are sorted by distance, not by jump count)"""
    a = np.array
    d = dict(hist.configs())
    d['rect23-2'] = (lambda: crystal.Crystal(a([[1., 0.], [0., 2.3]]), [a([0., 0.])]), 0, 2.4, 2)
    d['rect23-1'] = (lambda: crystal.Crystal(a([[1., 0.], [0., 2.3]]), [a([0., 0.])]), 0, 2.4, 1)
    d['rect17-2'] = (lambda: crystal.Crystal(a([[1., 0.], [0., 1.7]]), [a([0., 0.])]), 0, 1.75, 2)
    d['tetra23-2'] = (lambda: crystal.Crystal(np.diag([1., 1., 2.3]), [a([0., 0., 0.])]), 0, 2.35, 2)
    return d


_VM = {}


def get_vm(cfg):
    if cfg not in _VM:
        mk, chem, cut, nth = vm_configs()[cfg]
        crys = mk()
        _VM[cfg] = OnsagerCalc.VacancyMediated(crys, chem, crys.sitelist(chem), crys.jumpnetwork(chem, cut), nth)
    return _VM[cfg]


def classify(case, vm=False):
    """vm=False: star set of C24's case list; vm=True: case is a VacancyMediated configuration of C14 (kinetic star set, pruned om1)"""
    def fn(src=None):
        src = src or Src()
        if vm:
            calc = get_vm(case)
            crys, chem, jn, ss = calc.crys, calc.chem, calc.om0_jn, calc.kinetic
            om1, om2 = calc.om1_jn, calc.om2_jn
            thermo = S24.state_tuples(calc.thermo.states)
        else:
            crys, chem, jn, ss, N, OS = S24.build(case)
            om1 = ss.jumpnetwork_omega1()[0]
            om2 = ss.jumpnetwork_omega2()[0]
            thermo = None
        dim = crys.dim
        name = 'classify:%s%s' % ('vm:' if vm else '', case)
        sym = src.symbolic
        n = len(crys.basis[chem])
        J = jumps_from(crys, chem, jn)
        i = int(src.int('i', 0, n - 1))
        j = int(src.int('j', 0, n - 1))
        nj = len(J.get(j, []))
        if nj == 0:
            return []
        q = int(src.int('jump', 0, nj - 1))
        R = src.ints('R', dim, -1000, 1000)
        k, dR, dxJ = J[j][q]
        R2 = [R[m] + dR[m] for m in range(dim)]
        S = S24.state_tuples(ss.states)
        obs = []
        info = src.info(replayer='classify', extra={'case': case, 'vm': vm})

        def ob(nm, v):
            obs.append(('%s:%s' % (name, nm), v, dict(info, sig='classify:' + nm)))
        if sym:
            mem1 = S24.in_set(i, j, R, S)
            mem2 = S24.in_set(i, k, R2, S)
            zero1 = core.And(*[x == 0 for x in R]) if i == j else False
            zero2 = core.And(*[x == 0 for x in R2]) if i == k else False
            swing = core.And(mem1, core.Not(zero1), mem2, core.Not(zero2))
            if thermo is not None:
                swing = core.And(swing, core.Or(S24.in_set(i, j, R, thermo), S24.in_set(i, k, R2, thermo)))
            f1 = class_formulas(om1, S, i, j, R, k, R2, dxJ)
            ob('swing-jump-in-exactly-one-class', core.Implies(swing, exactly_one(f1)))
            # exchange: the jump lands on the solute; the reversed state is a member whenever the state is (checked concretely below)
            exch = core.And(mem1, core.Not(zero1), zero2)
            f2 = class_formulas(om2, S, i, j, R, k, R2, dxJ, exchange=True)
            ob('exchange-in-exactly-one-class', core.Implies(exch, exactly_one(f2)))
            obs.append(('twin:%s' % name, core.Not(swing)))
        else:
            t1 = (i, j, tuple(int(x) for x in R))
            t2 = (i, k, tuple(int(x) for x in R2))
            Sset = set(S)
            z1 = (i == j and all(x == 0 for x in t1[2]))
            z2 = (i == k and all(x == 0 for x in t2[2]))
            swing = t1 in Sset and t2 in Sset and not z1 and not z2
            if thermo is not None:
                swing = swing and (t1 in set(thermo) or t2 in set(thermo))

            def count(classes, exchange):
                c = 0
                for cl in classes:
                    hit = False
                    for (a, b), dx in cl:
                        if not np.allclose(np.asarray(dx, dtype=float), dxJ, atol=1e-7) or S[a] != t1:
                            continue
                        if exchange:
                            if S[b] == (t1[1], t1[0], tuple(-x for x in t1[2])):
                                hit = True
                        elif S[b] == t2:
                            hit = True
                    c += hit
                return c
            ob('swing-jump-in-exactly-one-class', (not swing) or count(om1, False) == 1)
            exch = t1 in Sset and not z1 and z2
            ob('exchange-in-exactly-one-class', (not exch) or count(om2, True) == 1)
        return obs
    return fn


def structure(case, vm=False):
    def fn(src=None):
        src = src or Src()
        if vm:
            calc = get_vm(case)
            crys, chem, jn, ss = calc.crys, calc.chem, calc.om0_jn, calc.kinetic
            om1, om2 = calc.om1_jn, calc.om2_jn
            outer = set(calc.outerkin)
        else:
            crys, chem, jn, ss, N, OS = S24.build(case)
            om1 = ss.jumpnetwork_omega1()[0]
            om2 = ss.jumpnetwork_omega2()[0]
            outer = None
        name = 'struct:%s%s' % ('vm:' if vm else '', case)
        obs = []
        info = src.info(replayer='struct', extra={'case': case, 'vm': vm})

        def ob(nm, v):
            obs.append(('%s:%s' % (name, nm), bool(v), dict(info, sig='struct:' + nm)))
        J = jumps_from(crys, chem, jn)
        G = geom.sorted_ops(crys)
        S = S24.state_tuples(ss.states)
        idx = {t: n for n, t in enumerate(S)}

        def genuine(cl, exchange):
            for (a, b), dx in cl:
                sa, sb = ss.states[a], ss.states[b]
                dx = np.asarray(dx, dtype=float)
                if exchange:
                    if S[b] != (S[a][1], S[a][0], tuple(-x for x in S[a][2])) or not np.allclose(dx, -sa.dx, atol=1e-7):
                        return False
                    # the vacancy really can jump onto the solute: (j -> i) with lattice vector -R is a jump of the network
                    if not any(k == S[a][0] and dR == tuple(-x for x in S[a][2]) for (k, dR, dxj) in J.get(S[a][1], [])):
                        return False
                else:
                    if sa.iszero() or sb.iszero() or S[a][0] != S[b][0]:
                        return False
                    if not np.allclose(dx, sb.dx - sa.dx, atol=1e-7):
                        return False
                    dR = tuple(y - x for x, y in zip(S[a][2], S[b][2]))
                    if not any(k == S[b][1] and d == dR and np.allclose(dxj, dx, atol=1e-7) for (k, d, dxj) in J.get(S[a][1], [])):
                        return False
            return True

        def closed(cl):
            have = set((a, b) + tuple(np.round(np.asarray(dx, dtype=float), 6) + 0.0) for (a, b), dx in cl)
            if len(have) != len(cl):
                return False
            for (a, b), dx in cl:
                dx = np.asarray(dx, dtype=float)
                if (b, a) + tuple(np.round(-dx, 6) + 0.0) not in have:
                    return False
                for g in G:
                    ga = idx.get(S24.state_tuples([ss.states[a].g(crys, chem, g)])[0])
                    gb = idx.get(S24.state_tuples([ss.states[b].g(crys, chem, g)])[0])
                    if ga is None or gb is None or (ga, gb) + tuple(np.round(np.dot(g.cartrot, dx), 6) + 0.0) not in have:
                        return False
            return True
        ob('omega1-entries-are-single-swing-jumps', all(genuine(cl, False) for cl in om1))
        ob('omega2-entries-are-exchanges', all(genuine(cl, True) for cl in om2))
        ob('omega1-classes-closed', all(closed(cl) for cl in om1))
        ob('omega2-classes-closed', all(closed(cl) for cl in om2))
        allent = [(a, b) + tuple(np.round(np.asarray(dx, dtype=float), 6) + 0.0) for cl in om1 for (a, b), dx in cl]
        ob('omega1-no-entry-twice', len(allent) == len(set(allent)))
        allent2 = [(a, b) + tuple(np.round(np.asarray(dx, dtype=float), 6) + 0.0) for cl in om2 for (a, b), dx in cl]
        ob('omega2-no-entry-twice', len(allent2) == len(set(allent2)))
        # regeneration history: networks asked of an object that was FIRST built with a smaller range, asked for its networks, and
        # then regenerated must be the networks of a freshly built object (as sets of (initial state, final state, dx))
        def canon(sset, net):
            return sorted(sorted((S24.state_tuples([sset.states[a]])[0], S24.state_tuples([sset.states[b]])[0],
                                  tuple(np.round(np.asarray(dx, dtype=float), 6) + 0.0)) for (a, b), dx in cl) for cl in net)
        try:
            if vm:
                mk, chem_, cut_, nth_ = vm_configs()[case]
                c2 = mk()
                h = OnsagerCalc.VacancyMediated(c2, chem_, c2.sitelist(chem_), c2.jumpnetwork(chem_, cut_), max(1, nth_ - 1) if nth_ > 1 else nth_ + 1)
                h.generate(nth_)
                # the crystal object differs (same construction): compare through the states' integer tuples
                same_hist = canon(h.kinetic, h.om1_jn) == canon(ss, om1) and canon(h.kinetic, h.om2_jn) == canon(ss, om2)
            else:
                h = stars.StarSet(jn, crys, chem, 1, originstates=OS)
                h.jumpnetwork_omega1(), h.jumpnetwork_omega2()
                h.generate(N, originstates=OS)
                h1, h2 = h.jumpnetwork_omega1()[0], h.jumpnetwork_omega2()[0]
                same_hist = canon(h, h1) == canon(ss, om1) and canon(h, h2) == canon(ss, om2)
                g2 = stars.StarSet(jn, crys, chem, N, originstates=OS)
                g2.jumpnetwork_omega1(), g2.jumpnetwork_omega2()
                g2 += stars.StarSet(jn, crys, chem, 1, originstates=OS)
                f3 = stars.StarSet(jn, crys, chem, N + 1, originstates=OS) if N < 3 else None
                if f3 is not None:
                    same_hist = same_hist and canon(g2, g2.jumpnetwork_omega1()[0]) == canon(f3, f3.jumpnetwork_omega1()[0]) and \
                        canon(g2, g2.jumpnetwork_omega2()[0]) == canon(f3, f3.jumpnetwork_omega2()[0])
        except Exception:
            same_hist = False
        ob('networks-after-regeneration-equal-fresh-networks', same_hist)
        if vm:
            # nothing that connects two outer (kinetic-only) stars survives the pruning; star pairs / jump types line up with the classes
            ok = all(not (ss.index[a] in outer and ss.index[b] in outer) for cl in om1 for (a, b), dx in cl)
            ob('pruned-network-has-no-outer-outer-jump', ok)
            ok2 = len(calc.om1_jt) == len(om1) == len(calc.om1_SP) and all(
                (ss.index[cl[0][0][0]], ss.index[cl[0][0][1]]) == tuple(sp) for cl, sp in zip(om1, calc.om1_SP))
            ob('star-pairs-match-classes', ok2)
        return obs
    return fn


QUICK = ['square-2', 'sc-2', 'hcp-2', 'honeycomb-2', 'rect2-2', 'oblique-c1-2', 'b2-2', 'diamond-2', 'fcc-2']
THOROUGH = QUICK + ['square-3', 'omega-2', 'p222-2', 'tric-c1-2']
VM_Q = ['square-1', 'rect2-1', 'square-2', 'rect23-2', 'rect17-2']
VM_T = VM_Q + ['sc-1', 'rumple2d-1', 'rect23-1', 'tetra23-2']


def sections(tier):
    S = run.Section
    bud = 170 if tier == 'quick' else 1200
    secs = []
    for c in (QUICK if tier == 'quick' else THOROUGH):
        secs.append(S('classify:' + c, classify(c), budget_s=bud, replayer='classify', config=c, maxpaths=2000, timeout_ms=30000))
        secs.append(S('struct:' + c, structure(c), budget_s=bud, replayer='struct', config=c, maxpaths=2, timeout_ms=30000))
    for c in (VM_Q if tier == 'quick' else VM_T):
        secs.append(S('classify:vm:' + c, classify(c, True), budget_s=bud, replayer='classify', config=c, maxpaths=2000, timeout_ms=30000))
        secs.append(S('struct:vm:' + c, structure(c, True), budget_s=bud, replayer='struct', config=c, maxpaths=2, timeout_ms=30000))
    return secs


def main():
    import warnings
    warnings.simplefilter('ignore')
    if REPLAY:
        run.replay_main('C26', {'classify': lambda rec: harness.run_laws_concrete(classify(rec['extra']['case'], rec['extra']['vm']), rec),
                                'struct': lambda rec: harness.run_laws_concrete(structure(rec['extra']['case'], rec['extra']['vm']), rec)})
    SS = stars.StarSet
    chk = run.Check(
        'C26',
        functions=[loader.func_hash(f) for f in (SS.jumpnetwork_omega1, SS.jumpnetwork_omega2, SS.symmequivjumplist, SS.stateindex,
                                                 PS.__add__, PS.__neg__, PS.g, OnsagerCalc.VacancyMediated.generate)],
        assumptions=[
            'crystals / networks / shells enumerated (C24\'s list); VacancyMediated configurations square (Nthermo 1, 2), rect-2-site '
            '(+ SC, rumpled 2-d in thorough)',
            'the transition is symbolic in the lattice vector of its initial state (integers in [-1000, 1000]^d, decided for all of them); '
            'site indices and the jump taken are case-split; class membership is the disjunction over the class entries, displacement '
            'compared with the network\'s Cartesian jump vector to 1e-7',
            'closure of classes under the space group / reversal and the genuineness of every listed entry are replayable constant '
            'obligations on the same run',
        ],
        explanation='Real jumpnetwork_omega1 / omega2 (and the pruning in VacancyMediated.generate): every symbolic swing jump between '
                    'member states and every symbolic exchange lies in exactly one class (z3, QF_LIA); entries genuine, classes closed.',
        bounds='quick: %s + VM %s; thorough: %s + VM %s' % (QUICK, VM_Q, THOROUGH, VM_T))
    chk.run(sections(chk.tier))
    chk.finish()


if __name__ == '__main__':
    main()
