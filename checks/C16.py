"""C16 Taylor-expansion arithmetic commutes with evaluation.

One operand carries a fully symbolic coefficient block (every entry a solver real in [-1,1]); the other
operands are fixed dyadic expansions.  Each operation is applied by the real code to the symbolic
expansion and the result is evaluated on a unisolvent set of rational unit vectors, where it must equal the
operation applied to the evaluated operands, for every radial order n (QF_LRA, all coefficient values).
The allclose tests inside reduce/collect/separate fork on the symbolic blocks: every stratum is explored."""
import sys

import numpy as np

from symx import run, loader

REPLAY = run.is_replay()
if REPLAY:
    loader.install_plain()
else:
    loader.install()

from onsager import PowerExpansion as PE   # noqa: E402
from symx import core, harness, shim   # noqa: E402
from symx.core import ENG, Sym   # noqa: E402
from symx.harness import Src   # noqa: E402
sys.path.insert(0, __file__.rsplit('/', 1)[0])
import taylor   # noqa: E402
from taylor import evalsum, same_function   # noqa: E402

SHAPES = {'s': (), 'v': (2,), 'm': (2, 2)}
FULL = [False]


def setup(src, dim, case, shape):
    """expansion `a` with ONE symbolic (n,l) block among concrete ones, and a concrete partner `b`"""
    T = taylor.cls(dim)
    rng = np.random.RandomState(17 + 3 * case + dim)
    ns, ls = [(0, 2), (1, 1), (2, 3), (0, 0)][case % 4]
    terms = [(ns, ls, taylor.sym_block(src, T, 'c', ls, shape))]
    used = {ns}
    for (n, l) in [(0, 1), (1, 2), (2, 2), (3, 0)]:
        if n not in used and len(terms) < 3:
            terms.append((n, l, taylor.conc_block(T, rng, l, shape)))
            used.add(n)
    a = T(terms)
    # partner overlapping in n with larger and smaller l (exercises both merge branches of sumcoeff)
    b = T([(ns, min(ls + 1, T.Lmax), taylor.conc_block(T, rng, min(ls + 1, T.Lmax), shape)),
           (ns + 1, max(ls - 1, 0), taylor.conc_block(T, rng, max(ls - 1, 0), shape)),
           (5, 1, taylor.conc_block(T, rng, 1, shape))])
    return T, a, b, rng


def per_n(fa, fb, op):
    """combine two evaluated dictionaries term by term in n"""
    def f(u):
        ea, eb = fa(u), fb(u)
        return {n: op(ea.get(n, 0), eb.get(n, 0)) for n in set(ea) | set(eb)}
    return f


def linear_ops(dim, case, shapek):
    def fn(src=None):
        src = src or Src()
        shape = SHAPES[shapek]
        name = 'linear:%dD:%d:%s' % (dim, case, shapek)
        with shim.symbolic_mode():
            T, a, b, rng = setup(src, dim, case, shape)
            pts = taylor.points(dim, FULL[0])
            sym = src.symbolic
            obs = []
            info = src.info(replayer='linear', extra={'dim': dim, 'case': case, 'shape': shapek})

            def ob(n, v):
                obs.append(('%s:%s' % (name, n), v, dict(info, sig='linear:' + n)))
            A = lambda u: evalsum(a, u)    # noqa: E731
            B = lambda u: evalsum(b, u)    # noqa: E731
            ob('neg', same_function(-a, per_n(A, A, lambda x, y: -x), pts, sym))
            ob('pos', same_function(+a, A, pts, sym))
            ob('sum', same_function(a + b, per_n(A, B, lambda x, y: x + y), pts, sym))
            ob('rsum', same_function(b + a, per_n(A, B, lambda x, y: x + y), pts, sym))
            ob('diff', same_function(a - b, per_n(A, B, lambda x, y: x - y), pts, sym))
            ob('rdiff', same_function(b - a, per_n(A, B, lambda x, y: y - x), pts, sym))
            c2 = a.copy()
            c2 += b
            ob('iadd', same_function(c2, per_n(A, B, lambda x, y: x + y), pts, sym))
            c3 = a.copy()
            c3 -= b
            ob('isub', same_function(c3, per_n(A, B, lambda x, y: x - y), pts, sym))
            ob('sumcoeff-alpha-beta', same_function(T(T.sumcoeff(a, b, 0.5, -1.25)), per_n(A, B, lambda x, y: 0.5 * x - 1.25 * y), pts, sym))
            ob('scalar', same_function(a * 0.75, per_n(A, A, lambda x, y: 0.75 * x), pts, sym))
            ob('rscalar', same_function(-1.5 * a, per_n(A, A, lambda x, y: -1.5 * x), pts, sym))
            cd = {(n, l): 0.25 * (n + 1) - 0.5 * l for (n, l, c) in a.coefflist}
            ob('scalar-dict', same_function(T(T.scalarproductcoeff(cd, a)),
                                            lambda u: _dict_scaled(a, u, cd), pts, sym))
            ob('truncate', same_function(a.truncate(1), lambda u: {n: v for n, v in A(u).items() if n <= 1}, pts, sym))
            at = a.copy()
            at.truncate(0, inplace=True)
            ob('truncate-inplace', same_function(at, lambda u: {n: v for n, v in A(u).items() if n <= 0}, pts, sym))
            if shape:
                M = np.round(rng.uniform(-1, 1, (2, 2)) * 8) / 8
                ob('ldot', same_function(a.ldot(M), per_n(A, A, lambda x, y: np.dot(M, x)), pts, sym))
                ob('rdot', same_function(a.rdot(M), per_n(A, A, lambda x, y: np.dot(x, M)), pts, sym))
                ob('getitem0', same_function(a[0], per_n(A, A, lambda x, y: np.asarray(x, dtype=object)[0] if not isinstance(x, int) else 0), pts, sym))
                if len(shape) == 2:
                    ob('getitem-col', same_function(a[:, 1], per_n(A, A, lambda x, y: np.asarray(x, dtype=object)[:, 1] if not isinstance(x, int) else 0), pts, sym))
                    z = T.zeros(min(n for n, l, c in a.coefflist), max(n for n, l, c in a.coefflist), (2, 2), dtype=float)
                    z[0:1, :] = a[0:1, :]
                    z[1:2, :] = a[1:2, :] * 2.0

                    def exp_set(u):
                        out = {}
                        for n, v in A(u).items():
                            v = np.asarray(v, dtype=object)
                            out[n] = np.array([v[0], 2.0 * v[1]], dtype=object)
                        return out
                    ob('setitem', same_function(z, exp_set, pts, sym))
            if sym:
                obs.append(('twin:%s:sum-shifted' % name, same_function(a + b, per_n(A, B, lambda x, y: x + y + 1e-6), pts[:2], True)))
        return obs
    return fn


def _dict_scaled(a, u, cd):
    out = {}
    for (n, l), x in a(u).items():
        out[n] = out.get(n, 0) + cd[(n, l)] * x
    return out


def product_ops(dim, case, shapek, side):
    """product of expansions: bilinear, the symbolic block on one side"""
    def fn(src=None):
        src = src or Src()
        shape = SHAPES[shapek]
        name = 'product:%dD:%d:%s:%s' % (dim, case, shapek, side)
        with shim.symbolic_mode():
            T = taylor.cls(dim)
            rng = np.random.RandomState(5 + case)
            ns, ls = [(0, 1), (1, 2), (0, 2)][case % 3]
            a = T([(ns, ls, taylor.sym_block(src, T, 'c', ls, shape)), (ns + 1, 1, taylor.conc_block(T, rng, 1, shape))])
            lb = min(2, T.Lmax - ls)
            b = T([(0, lb, taylor.conc_block(T, rng, lb, shape)), (1, 1, taylor.conc_block(T, rng, 1, shape)),
                   (2, 0, taylor.conc_block(T, rng, 0, shape))])
            pts = taylor.points(dim, FULL[0])
            sym = src.symbolic
            obs = []
            info = src.info(replayer='product', extra={'dim': dim, 'case': case, 'shape': shapek, 'side': side})
            x, y = (a, b) if side == 'left' else (b, a)
            c = x * y

            def mult(p, q):
                if len(shape) == 2:
                    return np.dot(p, q)
                if len(shape) == 1:
                    raise ValueError
                return p * q

            def ref(u):
                ex, ey = x(u), y(u)
                out = {}
                for (n1, l1), p in ex.items():
                    for (n2, l2), q in ey.items():
                        out[n1 + n2] = out.get(n1 + n2, 0) + mult(p, q)
                return out
            obs.append(('%s:product' % name, same_function(c, ref, pts, sym), dict(info, sig='product')))
            if sym:
                obs.append(('twin:%s:shifted' % name, same_function(c, lambda u: {n: v + 1e-6 for n, v in ref(u).items()}, pts[:2], True)))
        return obs
    return fn


def reduce_ops(dim, case):
    """reduce (project + drop + collect) and separate keep the function; one symbolic block among concrete ones"""
    def fn(src=None):
        src = src or Src()
        name = 'reduce:%dD:%d' % (dim, case)
        with shim.symbolic_mode():
            T = taylor.cls(dim)
            rng = np.random.RandomState(3 + case)
            ns, ls = [(2, 2), (0, 2), (1, 3), (2, 1), (0, 4), (1, 2)][case % 6]
            terms = [(ns, ls, taylor.sym_block(src, T, 'c', ls, ()))]
            # concrete companions: same n with another l (collect must merge), another n
            l2 = 1 if ls != 1 else 2
            terms.append((ns, l2, taylor.conc_block(T, rng, l2, ())) if case % 2 == 0 else (ns + 1, 2, taylor.conc_block(T, rng, 2, ())))
            terms.append((ns + 2, 1, taylor.conc_block(T, rng, 1, ())))
            # Taylor() refuses duplicate n in one list only through sumcoeff: build by summation
            a = T([terms[0]]) + T([terms[1]]) + T([terms[2]]) if terms[1][0] != ns else T(T.sumcoeff([terms[0]], [terms[2]]) + [terms[1]])
            pts = taylor.points(dim, FULL[0])
            sym = src.symbolic
            obs = []
            info = src.info(replayer='reduce', extra={'dim': dim, 'case': case})
            A = lambda u: evalsum(a, u)    # noqa: E731
            def obk(nm, X):
                for k, v in enumerate(same_function(X, A, pts, sym, chunk=5)):
                    obs.append(('%s:%s@%d' % (name, nm, k), v, dict(info, sig=nm)))
            r = a.copy()
            r.reduce()
            obk('reduce', r)
            obs.append(('%s:reduce-unique-n' % name, len(set(n for n, l, c in r.coefflist)) == len(r.coefflist), dict(info, sig='reduce-unique-n')))
            s = r.copy()
            s.separate()
            obk('separate', s)
            if FULL[0] or case == 0:
                obk('reducecoeff', T(T.reducecoeff(a)))
                obk('collectcoeff', T(T.collectcoeff(a)))
            if sym:
                obs.append(('twin:%s:shifted' % name, same_function(r, lambda u: {n: v + 1e-6 for n, v in A(u).items()}, pts[:2], True)))
        return obs
    return fn


def construct_ops(dim, case):
    """constructexpansion from (matrix, direction) pairs reproduces sum coeff * (vect.q)^n"""
    def fn(src=None):
        src = src or Src()
        name = 'construct:%dD:%d' % (dim, case)
        with shim.symbolic_mode():
            T = taylor.cls(dim)
            vects = [np.array(v[:dim], dtype=float) for v in [(1, 0.5, -0.25), (0.75, -1, 0.5), (-0.5, 0.25, 1)]]
            shape = [(), (2, 2)][case % 2]
            coeffs = [src.reals('k%d' % k, shape if shape else (1,), -1, 1) for k in range(len(vects))]
            coeffs = [c if shape else c[0] for c in coeffs]
            basis = [(np.asarray(c, dtype=object) if shape else np.array(c, dtype=object), v) for c, v in zip(coeffs, vects)]
            pre = [1, 0.5, 0.25, 2, 1.5][:T.Lmax + 1]
            exps = T.constructexpansion(basis, N=T.Lmax, pre=pre)
            pts = taylor.points(dim, FULL[0])
            sym = src.symbolic
            obs = []
            info = src.info(replayer='construct', extra={'dim': dim, 'case': case})
            for n, cl in enumerate(exps):
                Tn = T(list(cl))

                def ref(u, n=n):
                    return {n: sum(pre[n] * (float(np.dot(v, u)) ** n) * np.asarray(c, dtype=object) for c, v in zip(coeffs, vects))}
                obs.append(('%s:power%d' % (name, n), same_function(Tn, ref, pts, sym), dict(info, sig='construct')))
        return obs
    return fn


def plan(tier):
    P = []
    dims = (3, 2)
    if tier == 'quick':
        for dim in dims:
            P += [('linear', dim, 0, 'm'), ('linear', dim, 1, 's'), ('linear', dim, 2, 'v')]
            P += [('product', dim, 0, 'm', 'left'), ('product', dim, 1, 's', 'right')]
            P += [('reduce', dim, 0), ('reduce', dim, 1), ('reduce', dim, 2)]
            P += [('construct', dim, 0), ('construct', dim, 1)]
    else:
        for dim in dims:
            for case in range(4):
                for sh in 'svm':
                    P.append(('linear', dim, case, sh))
            for case in range(3):
                for sh in 'sm':
                    for side in ('left', 'right'):
                        P.append(('product', dim, case, sh, side))
            for case in range(6):
                P.append(('reduce', dim, case))
            P += [('construct', dim, 0), ('construct', dim, 1)]
    return P


MK = {'linear': lambda p: linear_ops(p[1], p[2], p[3]), 'product': lambda p: product_ops(p[1], p[2], p[3], p[4]),
      'reduce': lambda p: reduce_ops(p[1], p[2]), 'construct': lambda p: construct_ops(p[1], p[2])}


def sections(tier):
    S = run.Section
    FULL[0] = (tier == 'thorough')
    return [S(':'.join(map(str, p)), MK[p[0]](p), budget_s=170 if tier == 'quick' else 1200, replayer=p[0], config='%dD' % p[1],
              maxpaths=400, timeout_ms=30000) for p in plan(tier)]


def main():
    import warnings
    warnings.simplefilter('ignore')
    if REPLAY:
        run.replay_main('C16', {
            'linear': lambda rec: harness.run_laws_concrete(linear_ops(rec['extra']['dim'], rec['extra']['case'], rec['extra']['shape']), rec),
            'product': lambda rec: harness.run_laws_concrete(product_ops(rec['extra']['dim'], rec['extra']['case'], rec['extra']['shape'], rec['extra']['side']), rec),
            'reduce': lambda rec: harness.run_laws_concrete(reduce_ops(rec['extra']['dim'], rec['extra']['case']), rec),
            'construct': lambda rec: harness.run_laws_concrete(construct_ops(rec['extra']['dim'], rec['extra']['case']), rec)})
    T = PE.Taylor3D
    chk = run.Check(
        'C16',
        functions=[loader.func_hash(f) for f in (T.sumcoeff, T.negcoeff, T.scalarproductcoeff, T.tensorproductcoeff, T.coeffproductcoeff,
                                                 T.__getitem__, T.__setitem__, T.truncatecoeff, T.reducecoeff, T.collectcoeff,
                                                 T.separatecoeff, T.constructexpansion, T.__call__, T.powexp, PE.Taylor2D.powexp,
                                                 T.makeLprojections, T.makedirectmult, PE.Taylor2D.makeLprojections, PE.Taylor2D.makedirectmult)],
        assumptions=[
            'one operand carries ONE fully symbolic coefficient block (reals in [-1,1]); other blocks/operands are fixed dyadic values: by '
            '(bi)linearity in the coefficients this loses nothing for the linear and bilinear operations; for reduce/collect/separate the '
            'allclose strata of the symbolic block are explored exhaustively while the concrete companions are enumerated',
            'equality of expansions = equality for every radial order n at every point of a unisolvent set of rational unit vectors '
            '(rank checked at run time), to 1e-8; evaluation itself (powexp/__call__) is part of what runs symbolically',
            'real coefficients only (complex follow by linearity: argued, not checked); Lmax = 4',
        ],
        explanation='Real Taylor3D/Taylor2D arithmetic executed with symbolic coefficients; results compared with the operation applied to '
                    'evaluated operands at unisolvent points (QF_LRA, all coefficient values, every allclose stratum).',
        bounds='2-D and 3-D; shapes scalar, (2,), (2,2); quick: 3 linear, 2 product, 3 reduce, 2 construct cases per dimension; thorough: all cases')
    for dim in (3, 2):
        chk.note_concrete('unisolvent-%dD' % dim, taylor.unisolvent(taylor.cls(dim), dim, taylor.points(dim, chk.tier == 'thorough')))
    chk.run(sections(chk.tier))
    chk.finish()


if __name__ == '__main__':
    main()
