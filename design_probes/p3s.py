import numpy as np, z3, time, sys
import symx
from symx import ENG, Sym, SymBool
from onsager import crystal, OnsagerCalc

# ---- log-variable registry for exp ----
LOGV = {}   # z3 var name -> (E z3 var, y z3 var) with y = exp(E/2) > 0
def logvar(name):
    E = z3.Real(name); y = z3.Real('y_' + name)
    LOGV[name] = (E, y)
    ENG.assumes.append(y > 0)
    return Sym(E)
def sym_exp(self):
    z = self.z
    zero = [(E, z3.RealVal(0)) for E, y in LOGV.values()]
    c0 = z3.simplify(z3.substitute(z, *zero))
    assert z3.is_rational_value(c0) and c0.as_fraction() == 0, c0
    res = z3.RealVal(1); lin = z3.RealVal(0)
    for nm, (E, y) in LOGV.items():
        sub = [(E2, z3.RealVal(1) if nm2 == nm else z3.RealVal(0)) for nm2, (E2, y2) in LOGV.items()]
        ck = z3.simplify(z3.substitute(z, *sub))
        assert z3.is_rational_value(ck), ck
        f = ck.as_fraction() * 2
        assert f.denominator == 1, f
        n = int(f)
        lin = lin + ck * E
        for _ in range(abs(n)):
            res = res * y if n > 0 else res / y
    # linearity check
    d = z3.simplify(z - lin)
    s = z3.Solver(); s.add(d != 0)
    assert str(s.check()) == 'unsat'
    return Sym(z3.simplify(res))
Sym.exp = sym_exp

import sys
CUT = float(sys.argv[2]) if len(sys.argv) > 2 else 0.8
latt = np.array([[1.,0.,0.25],[0.,1.25,0.],[0.,0.,1.0]])
x_, y_, z_ = 0.125, 0.25, 0.375
orb = [np.array([x_,y_,z_]), np.array([-x_,y_,-z_])%1, np.array([-x_,-y_,-z_])%1, np.array([x_,-y_,z_])%1]
c3 = crystal.Crystal(latt, [[np.zeros(3)], orb + [np.array([0.5,0.5,0.5])]])
chem = 1
sl = c3.sitelist(chem); jn = c3.jumpnetwork(chem, CUT); print('classes', len(jn))
D = OnsagerCalc.Interstitial(c3, chem, sl, jn)

# patch numpy constructors in OnsagerCalc to make object arrays
class NP:
    def __getattr__(self, k): return getattr(np, k)
    def zeros(self, shape, dtype=float):
        if dtype in (float, complex):
            a = np.empty(shape, dtype=object); a.fill(0); return a
        return np.zeros(shape, dtype=dtype)

HOOK = {}
class NP2(NP):
    def sqrt(self, a):
        a = np.asarray(a)
        if a.dtype == object and a.ndim == 1 and len(a) == D.N and 'rho' not in HOOK:
            HOOK['rho'] = 1
            ys = [Sym(LOGV['E%d' % D.invmap[i]][1]) for i in range(D.N)]
            Z = sum(1/(yy*yy) for yy in ys)
            q = z3.Real('qZ'); ENG.assumes.append(z3.And(q > 0, q * q == Z.z))
            return np.array([1/(yy*Sym(q)) for yy in ys], dtype=object)
        return np.sqrt(a)
OnsagerCalc.np = NP2()
def sym_solve(A, b, **kw):
    n = len(b)
    ENG.fresh += 1
    x = np.array([Sym(z3.Real('x!%d_%d' % (ENG.fresh, i))) for i in range(n)], dtype=object)
    Ax = np.dot(A, x)
    for i in range(n):
        ENG.assumes.append((Ax[i] == b[i]).z)
    HOOK['gamma'] = x
    return x
OnsagerCalc.solve = sym_solve

def run():
    LOGV.clear(); HOOK.clear()
    bE = np.array([logvar('E0'), logvar('E1')], dtype=object)
    bET = np.array([logvar('T%d' % t) for t in range(len(jn))], dtype=object)
    pre = np.ones(2); preT = np.ones(len(jn))
    Dc = D.diffusivity(pre, bE, preT, bET)
    # ---- reference: exact CTMC ----
    N = D.N
    y = {nm: Sym(v[1]) for nm, v in LOGV.items()}
    yE = [y['E0'], y['E1']]; yT = [y['T%d' % t] for t in range(len(jn))]
    w = [1/(yE[D.invmap[i]]**2) for i in range(N)]          # unnormalised prob exp(-E_i)
    Z = sum(w)
    rho = [wi / Z for wi in w]
    dim = 3
    gam = -HOOK['gamma']
    q = Sym(z3.Real('qZ'))
    sq = [1/(yE[D.invmap[i]]*q) for i in range(N)]
    g = np.zeros((N, dim), dtype=object)
    for a, va in enumerate(D.VectorBasis):
        for i in range(N):
            g[i] = g[i] + gam[a] * va[i] / sq[i]
    lhs = np.zeros((N, dim), dtype=object); b = np.zeros((N, dim), dtype=object)
    D0 = np.zeros((dim, dim), dtype=object)
    for t, jl in enumerate(jn):
        for (i, j), dx in jl:
            W = yE[D.invmap[i]]**2 / yT[t]**2
            b[i] += W * dx
            lhs[i] += W * (g[j] - g[i])
            D0 += 0.5 * np.outer(dx, dx) * (rho[i] * W)
    Dref = D0 + sum(rho[i] * np.outer(b[i], g[i]) for i in range(N))
    obs = []
    for i in range(N):
        for a in range(dim):
            obs.append(('res%d%d' % (i, a), lhs[i, a] == b[i, a]))
    for a in range(dim):
        for c in range(dim):
            obs.append(('D%d%d' % (a, c), Dc[a, c] == Dref[a, c]))
    return obs
ENG.timeout_ms = int(sys.argv[1]) if len(sys.argv) > 1 else 60000
t = time.time()
n, res = ENG.explore(run)
print(n, [(r[0], r[1]) for r in res])
print('queries', ENG.nq, 'solver s', ENG.tq, 'wall', time.time() - t)
