"""C31 cluster enumeration is complete and cluster identity is geometric.

cluster.makeclusters runs with a SYMBOLIC cutoff: each path is one interval between consecutive pair
distances.  Per path the generated cluster set equals the harness' independent enumeration of all site sets
up to the maximum order whose sites are pairwise closer than the cutoff (membership decided by z3),
orbits are disjoint and closed under the space group, excluded species never appear; TS and vacancy
clusters derived from it are closed under the space group (TS: and under reversal).
(Cluster equality / hashing under translation and reordering is decided in C36.)"""
import itertools
import sys

import numpy as np

from symx import run, loader

REPLAY = run.is_replay()
if REPLAY:
    loader.install_plain()
else:
    loader.install()

from onsager import crystal, cluster   # noqa: E402
from symx import core, harness, shim   # noqa: E402
from symx.core import ENG   # noqa: E402
from symx.harness import Src   # noqa: E402
sys.path.insert(0, __file__.rsplit('/', 1)[0])
import geom   # noqa: E402

GUARD = 1e-6
CS = cluster.ClusterSite
# name: (crystal, cutoff interval, max order, exclude, mobile chem for TS/vacancy clusters, jump cutoff)
CASES = {
    'fcc-3': ('fcc', (0.6, 1.05), 3, (), 0, 0.8),
    'b2-3': ('b2', (0.8, 1.25), 3, (), 1, 1.01),
    'b2-excl': ('b2', (0.8, 1.5), 2, (0,), 1, 1.01),
    'square-3': ('square', (0.9, 1.6), 3, (), 0, 1.01),
    'hcp-2': ('hcp', (0.9, 1.5), 2, (), 0, 1.01),
    'tetra-ab-2': ('tetra-ab', (0.9, 1.7), 2, (), 0, 1.01),
    'tetra-ab-3': ('tetra-ab', (0.9, 1.3), 3, (), 0, 1.01),
    'hcpoct-2': ('hcpoct', (0.5, 1.05), 2, (), 1, 0.75),
    'omega-3': ('omega', (0.62, 0.75), 3, (), 0, 0.7),
    'rect2-3': ('rect2', (0.6, 1.05), 3, (), 0, 0.9),
    'skew2-2': ('skew2', (0.9, 1.55), 2, (), 0, 1.05),
}


def pair_table(crys, sites, rmax, box=4):
    """all (ci0, ci1, R, d2) with 0 < d2 <= rmax^2"""
    out = {}
    for ci0 in sites:
        for ci1 in sites:
            du = crys.basis[ci1[0]][ci1[1]] - crys.basis[ci0[0]][ci0[1]]
            for n in itertools.product(range(-box, box + 1), repeat=crys.dim):
                dx = crys.unit2cart(np.array(n), du)
                d2 = float(np.dot(dx, dx))
                if 1e-12 < d2 <= rmax * rmax:
                    out[(ci0, ci1, tuple(n))] = d2
    return out


def enumerate_case(case):
    cname, (clo, chi), order, exclude, chem, jcut = CASES[case]

    def fn(src=None):
        src = src or Src()
        crys = geom.get_crystal(cname)
        name = 'clusters:' + case
        sym = src.symbolic
        cutoff = src.real('cutoff', clo, chi)
        sites = [ci for ci in crys.atomindices if ci[0] not in exclude]
        pairs = pair_table(crys, sites, chi + 0.05)
        if sym:
            for d2 in sorted(set(round(v, 9) for v in pairs.values())):
                dd = cutoff * cutoff - d2
                ENG.assume(core.Or(dd >= GUARD, dd <= -GUARD))
        with shim.symbolic_mode():
            clexp = cluster.makeclusters(crys, cutoff, order, exclude=exclude)
        if sym:
            ENG.require_feasible()
        obs = []
        info = src.info(replayer='clusters', extra={'case': case})

        def ob(n, v):
            obs.append(('%s:%s' % (name, n), v, dict(info, sig='clusters:' + n)))
        allcl = [cl for orbit in clexp for cl in orbit]
        got = set(allcl)
        ob('orbits-disjoint', len(got) == len(allcl))
        ob('order-bounded', all(1 <= cl.Norder <= order for cl in allcl))
        ob('excluded-absent', all(cs.ci[0] not in exclude for cl in allcl for cs in cl.sites))
        closed = all(cl.g(crys, g) in orbit for orbit in clexp for cl in orbit for g in crys.G)
        ob('orbits-closed', closed)
        ob('orbits-are-single-orbits', all(set(next(iter(orbit)).g(crys, g) for g in crys.G) == set(orbit) for orbit in clexp))

        def near(ci0, R0, ci1, R1):
            key = (ci0, ci1, tuple(int(x) for x in (np.asarray(R1) - np.asarray(R0))))
            d2 = pairs.get(key)
            if d2 is None:
                return False      # further than the largest cutoff considered (or identical site)
            return cutoff * cutoff > d2
        zero = np.zeros(crys.dim, dtype=int)
        conds = []
        seen = set()
        # order 1
        for ci in sites:
            cl = cluster.Cluster([CS(ci, zero)])
            conds.append(cl in got)
        # order 2 and 3: site sets containing a site in cell 0
        plist = [(k[0], k[1], np.array(k[2])) for k in pairs]
        if order >= 2:
            for (ci0, ci1, R) in plist:
                cl = cluster.Cluster([CS(ci0, zero), CS(ci1, R)])
                if cl in seen:
                    continue
                seen.add(cl)
                member = near(ci0, zero, ci1, R)
                conds.append(_agree(member, cl in got, sym))
        if order >= 3:
            byfirst = {}
            for (ci0, ci1, R) in plist:
                byfirst.setdefault(ci0, []).append((ci1, R))
            for ci0, lst in byfirst.items():
                for (ci1, R1), (ci2, R2) in itertools.combinations(lst, 2):
                    if ci1 == ci2 and np.all(R1 == R2):
                        continue
                    cl = cluster.Cluster([CS(ci0, zero), CS(ci1, R1), CS(ci2, R2)])
                    if cl in seen:
                        continue
                    seen.add(cl)
                    m01, m02, m12 = near(ci0, zero, ci1, R1), near(ci0, zero, ci2, R2), near(ci1, R1, ci2, R2)
                    member = core.And(m01, m02, m12) if sym else (bool(m01) and bool(m02) and bool(m12))
                    conds.append(_agree(member, cl in got, sym))
        ob('exact-cluster-set', core.And(*conds) if sym else all(bool(c) for c in conds))
        ob('no-foreign-clusters', all((cl in seen) or cl.Norder == 1 for cl in got))
        # derived cluster sets: closed under the space group (TS clusters: and reversal)
        jn = crys.jumpnetwork(chem, jcut)
        TS = cluster.makeTSclusters(crys, chem, jn, clexp)
        ob('TS-closed', all(cl.g(crys, g) in orbit for orbit in TS for cl in orbit for g in crys.G))
        ob('TS-disjoint', len(set(cl for o in TS for cl in o)) == sum(len(o) for o in TS))
        ob('TS-reversal', all(cluster.Cluster([cl.sites[1], cl.sites[0]] + list(cl.sites[2:]), transition=True) in orbit
                              for orbit in TS for cl in orbit))
        # ... and complete: every cluster with two mobile sites joined by a jump of the network gives the TS cluster of that jump
        TSall = set(cl for o in TS for cl in o)
        jumps = set()
        for jl in jn:
            for (i, j), dx in jl:
                Rj = np.round(np.dot(crys.invlatt, dx) - crys.basis[chem][j] + crys.basis[chem][i]).astype(int)
                jumps.add((i, j, tuple(int(x) for x in Rj)))
        want_TS = set()
        for cl in allcl:
            for sa in cl.sites:
                for sb in cl.sites:
                    if sa is sb or sa.ci[0] != chem or sb.ci[0] != chem:
                        continue
                    if (sa.ci[1], sb.ci[1], tuple(int(x) for x in (sb.R - sa.R))) in jumps:
                        rest = [s for s in cl.sites if s is not sa and s is not sb]
                        want_TS.add(cluster.Cluster([sa, sb] + rest, transition=True))
        # geometric reading of every TS cluster, independent of Cluster's own canonicalisation: its two special sites are mobile
        # sites joined by a jump of the network, and all its sites together form one of the generated clusters
        def ts_ok(t):
            s0, s1 = t.transitionstate()
            if s0.ci[0] != chem or s1.ci[0] != chem:
                return False
            if (s0.ci[1], s1.ci[1], tuple(int(x) for x in (s1.R - s0.R))) not in jumps:
                return False
            return cluster.Cluster(list(t.sites)) in got
        ob('TS-special-sites-are-a-jump', all(ts_ok(t) for t in TSall))
        ob('TS-count', len(TSall) == len(set((tuple((cs.ci, tuple(int(x) for x in (cs.R - t.sites[0].R))) for cs in t.sites[:2]),
                                             frozenset((cs.ci, tuple(int(x) for x in (cs.R - t.sites[0].R))) for cs in t.sites[2:])) for t in TSall)))
        ob('TS-complete', all(t in TSall for t in want_TS))
        ob('TS-no-extras', all(t in want_TS for t in TSall))
        VC = cluster.makeVacancyClusters(crys, chem, clexp)
        VCall = set(cl for o in VC for cl in o)
        want_V = set()
        for cl in allcl:
            for sa in cl.sites:
                if sa.ci[0] == chem:
                    want_V.add(cluster.Cluster([sa] + [s for s in cl.sites if s is not sa], vacancy=True))
        ob('vacancy-complete', all(v in VCall for v in want_V))
        ob('vacancy-no-extras', all(v in want_V for v in VCall))
        ob('vacancy-closed', all(cl.g(crys, g) in orbit for orbit in VC for cl in orbit for g in crys.G))
        ob('vacancy-disjoint', len(set(cl for o in VC for cl in o)) == sum(len(o) for o in VC))
        if sym:
            obs.append(('twin:%s' % name, False))
        return obs
    return fn


def _agree(member, present, sym):
    if sym and isinstance(member, core.SymBool):
        return member if present else core.Not(member)
    return bool(member) == present


QUICK = ['fcc-3', 'b2-3', 'b2-excl', 'square-3', 'tetra-ab-2', 'hcpoct-2', 'omega-3', 'rect2-3', 'skew2-2']
THOROUGH = QUICK + ['hcp-2', 'tetra-ab-3']


def sections(tier):
    S = run.Section
    return [S('clusters:' + c, enumerate_case(c), budget_s=175 if tier == 'quick' else 1200, replayer='clusters', config=c, maxpaths=200,
              timeout_ms=20000) for c in (QUICK if tier == 'quick' else THOROUGH)]


def main():
    import warnings
    warnings.simplefilter('ignore')
    if REPLAY:
        run.replay_main('C31', {'clusters': lambda rec: harness.run_laws_concrete(enumerate_case(rec['extra']['case']), rec)})
    chk = run.Check(
        'C31',
        functions=[loader.func_hash(f) for f in (cluster.makeclusters, cluster.makeTSclusters, cluster.makeVacancyClusters,
                                                 cluster.Cluster.g, cluster.Cluster.__add__, cluster.Cluster.__sub__, cluster.Cluster.__contains__)],
        assumptions=[
            'crystal, maximum order (<=3), excluded species enumerated; cutoff symbolic over a stated interval, guard band 1e-6 around every '
            'squared pair distance; independent enumeration over a +-4 cell box',
            'TS / vacancy clusters: closure under the space group (and reversal) on each path; cluster equality/hash laws are in C36',
        ],
        explanation='Real makeclusters executed with a symbolic cutoff (one path per interval between pair distances); exact cluster set, '
                    'disjoint and closed orbits decided per path; derived TS and vacancy cluster sets closed.',
        bounds='; '.join('%s: %s cutoff in %s order %d exclude %s' % (k, v[0], v[1], v[2], v[3]) for k, v in CASES.items()))
    chk.run(sections(chk.tier))
    chk.finish()


if __name__ == '__main__':
    main()
