import numpy as np, z3, time
import symx
from symx import ENG, Sym, SymBool, Int, Real
from onsager import crystal, OnsagerCalc, GFcalc

sq = crystal.Crystal(np.eye(2), [np.zeros(2)])
sl = sq.sitelist(0); jn = sq.jumpnetwork(0, 1.01)
d = OnsagerCalc.VacancyMediated(sq, 0, sl, jn, 1)
print('Nvstars', d.vkinetic.Nvstars, 'GF stars', d.GFstarset.Nstars)

UF = {}
def key(a):
    return tuple(z3.simplify(x.z).sexpr() if isinstance(x, Sym) else repr(float(x)) for x in np.asarray(a, dtype=object).flat)
def uf_matrix(name, A, shape):
    k = (name,) + key(A)
    if k not in UF:
        idx = len(UF)
        out = np.empty(shape, dtype=object)
        for i in np.ndindex(*shape): out[i] = Sym(z3.Real('%s!%d_%s' % (name, idx, '_'.join(map(str, i)))))
        UF[k] = out
    return UF[k].copy()
class LINALG:
    def inv(self, A): return uf_matrix('inv', A, np.shape(A))
    def pinv(self, A): return uf_matrix('pinv', A, np.shape(A)[::-1])
    def eigh(self, A):
        n = np.shape(A)[0]
        return uf_matrix('eigw', A, (n,)), uf_matrix('eigv', A, (n, n))
class NP:
    linalg = LINALG()
    def __getattr__(self, k): return getattr(np, k)
    def diag(self, v):
        v = np.asarray(v)
        if v.dtype == object and v.ndim == 1:
            r = np.empty((len(v), len(v)), dtype=object); r.fill(0)
            for i, x in enumerate(v): r[i, i] = x
            return r
        return np.diag(v)
    def eye(self, n, **k):
        r = np.empty((n, n), dtype=object); r.fill(0)
        for i in range(n): r[i, i] = 1
        return r
    def zeros(self, shape, dtype=float):
        if dtype in (float, complex):
            a = np.empty(shape, dtype=object); a.fill(0); return a
        return np.zeros(shape, dtype=dtype)
    def ones_like(self, a, **k):
        a = np.asarray(a); 
        if a.dtype == object:
            r = np.empty(a.shape, dtype=object); r.fill(1); return r
        return np.ones_like(a, **k)
    def zeros_like(self, a, **k):
        a = np.asarray(a)
        if a.dtype == object:
            r = np.empty(a.shape, dtype=object); r.fill(0); return r
        return np.zeros_like(a, **k)
    def allclose(self, a, b, rtol=1e-5, atol=1e-8):
        a = np.asarray(a, dtype=object); b = np.broadcast_to(np.asarray(b, dtype=object), a.shape)
        conds = []
        for x, y in zip(a.flat, b.flat):
            dd = x - y
            if isinstance(dd, Sym):
                ay = abs(y) if isinstance(y, Sym) else abs(float(y))
                conds.append((abs(dd) <= atol + rtol * ay).z)
            elif not abs(dd) <= atol + rtol*abs(y): return False
        return SymBool(z3.And(*conds)) if conds else True
    def any(self, a, *args, **k):
        a = np.asarray(a)
        if a.dtype == object:
            zs = [x.z if isinstance(x, SymBool) else z3.BoolVal(bool(x)) for x in a.flat]
            return SymBool(z3.Or(*zs))
        return np.any(a, *args, **k)
OnsagerCalc.np = NP()
OnsagerCalc.pinv = LINALG().pinv

class vTKsym(OnsagerCalc.vacancyThermoKinetics):
    pass
# stub GF calculator: environment returning arbitrary values, function of the rates
class GFstub:
    def __init__(self, real): self.real = real; self.store = {}
    def SetRates(self, pre, betaene, preT, betaeneT):
        self.k = key(np.hstack([pre, betaene, preT, betaeneT]))
        if self.k not in self.store:
            n = len(self.store)
            D = np.empty((2,2), dtype=object)
            for i in np.ndindex(2,2): D[i] = Real('D!%d_%d%d' % (n, *i))
            self.store[self.k] = dict(D=D, eta=np.zeros((1,2)), g={})
    def Diffusivity(self): return self.store[self.k]['D']
    def biascorrection(self): return self.store[self.k]['eta']
    def __call__(self, i, j, dx):
        g = self.store[self.k]['g']; kk = (i, j, tuple(np.round(dx, 8)))
        if kk not in g: g[kk] = Real('G!%d_%d' % (len(self.store), len(g)))
        return g[kk]

def run():
    UF.clear()
    d.clearcache()
    d.GFcalc = GFstub(d.GFcalc)
    # symbolic inputs
    bFV = np.array([Real('bFV0')], dtype=object); bFS = np.array([Real('bFS0')], dtype=object)
    bFSV = np.array([Real('bFSV%d' % k) for k in range(d.thermo.Nstars)], dtype=object)
    bFT0 = np.array([Real('bFT0_%d' % k) for k in range(len(d.om0_jn))], dtype=object)
    bFT1 = np.array([Real('bFT1_%d' % k) for k in range(len(d.om1_jn))], dtype=object)
    bFT2 = np.array([Real('bFT2_%d' % k) for k in range(len(d.om2_jn))], dtype=object)
    args = (bFV, bFS, bFSV, bFT0, bFT1, bFT2)
    L1 = d.Lij(*args)
    snap = [np.array(x, dtype=object).copy() for x in L1]
    # caller edits returned arrays in place by symbolic amounts
    for n, x in enumerate(L1):
        for i in np.ndindex(2,2): x[i] = x[i] + Real('delta_%d_%d%d' % (n, *i))
    L2 = d.Lij(*args)
    obs = []
    for n, (a, b) in enumerate(zip(snap, L2)):
        for i in np.ndindex(2,2):
            obs.append(('L%d%s' % (n, i), a[i] == b[i]))
    return obs

# hash/eq for vTK with symbolic arrays: tobytes on object arrays -> need deterministic key
import hashlib
def vtk_hash(self): return 0
def vtk_eq(self, other):
    return key(np.hstack(self)) == key(np.hstack(other))
OnsagerCalc.vacancyThermoKinetics.__hash__ = vtk_hash
OnsagerCalc.vacancyThermoKinetics.__eq__ = vtk_eq

# exp / sqrt as UF via methods
def uf_scalar(name):
    def f(self):
        k = (name, z3.simplify(self.z).sexpr())
        if k not in UF: UF[k] = Sym(z3.Real('%s!%d' % (name, len(UF))))
        ENG.assumes.append(UF[k].z > 0)
        return UF[k]
    return f
Sym.exp = uf_scalar('exp'); Sym.sqrt = uf_scalar('sqrt')
t = time.time()
npaths, res = ENG.explore(run, maxpaths=50)
print(npaths, [(r[0], r[1]) for r in res][:40], 'queries', ENG.nq, 'solver %.1f' % ENG.tq, 'wall %.1f' % (time.time()-t))
