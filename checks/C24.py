"""C24 star sets are complete symmetry orbits of reachable pair states.

Structure (crystal, jump network, number of shells, origin states) is enumerated.  Decided by the solver for a SYMBOLIC pair
state (site indices case-split, lattice vector R an unbounded-range integer vector):
 * membership in StarSet.states  <=>  reachable by 1..N jumps (independent breadth-first composition of the network's lattice
   form), plus the origin states when requested - for EVERY integer R, not only those near the set;
 * for every space-group operation g: the real PairState.g applied to the symbolic state stays in the SAME star;
 * endpoint differences: for two symbolic member states with the same solute site, the real `^` difference is a member of the
   difference star set (diffgenerate).
On the same run, as replayable constant obligations: stars partition the states, every star is ONE orbit, index look-ups
(stateindex / starindex / index / in) are consistent, adding two star sets equals generating with the summed range."""
import itertools
import sys

import numpy as np

from symx import run, loader

REPLAY = run.is_replay()
if REPLAY:
    loader.install_plain()
else:
    loader.install()

from onsager import crystal, crystalStars as stars   # noqa: E402
from symx import core, harness, shim   # noqa: E402
from symx.core import ENG   # noqa: E402
from symx.harness import Src   # noqa: E402
sys.path.insert(0, __file__.rsplit('/', 1)[0])
import geom   # noqa: E402

PS = stars.PairState
# name: (crystal, chem, jump cutoff, Nshells, origin states)
CASES = {
    'square-2': ('square', 0, 1.01, 2, False), 'square-3': ('square', 0, 1.01, 3, True), 'sc-2': ('sc', 0, 1.01, 2, False),
    'fcc-2': ('fcc', 0, 0.75, 2, False), 'hcp-2': ('hcp', 0, 1.01, 2, True), 'honeycomb-2': ('honeycomb', 0, 0.6, 2, True),
    'honeycomb-3': ('honeycomb', 0, 0.6, 3, False), 'rect2-2': ('rect2', 0, 0.9, 2, True), 'oblique-c1-2': ('oblique-c1', 0, 1.1, 2, True),
    'p222-2': ('p222', 1, 1.3, 2, False), 'tric-c1-2': ('tric-c1', 0, 1.2, 2, True), 'omega-2': ('omega', 0, 0.7, 2, True),
    'b2-2': ('b2', 1, 1.01, 2, False), 'hcp-3': ('hcp', 0, 1.01, 3, False), 'diamond-2': ('diamond', 0, 0.5, 2, True),
    # confined network: the only jump joins the two sites of an isolated dimer, so two jumps reach nothing new
    'dimer-2': ('dimer-chain', 0, 0.25, 2, False), 'dimer-3': ('dimer-chain', 0, 0.25, 3, True),
}
_B = {}


def build(case):
    if case not in _B:
        cname, chem, cut, N, OS = CASES[case]
        crys = geom.get_crystal(cname)
        jn = crys.jumpnetwork(chem, cut)
        ss = stars.StarSet(jn, crys, chem, N, originstates=OS)
        _B[case] = (crys, chem, jn, ss, N, OS)
    return _B[case]


def lattice_jumps(crys, chem, jn):
    """(i, j, dR) of every jump, from the Cartesian displacement (independent of jumpnetwork2lattice)"""
    out = []
    for jl in jn:
        for (i, j), dx in jl:
            dR = np.dot(crys.invlatt, dx) - crys.basis[chem][j] + crys.basis[chem][i]
            dRi = np.round(dR).astype(int)
            assert np.allclose(dR, dRi, atol=1e-6)
            out.append((i, j, tuple(int(x) for x in dRi)))
    return out


def reachable(crys, chem, jn, N, OS):
    """states (i, j, R) reachable by 1..N jumps of the vacancy (solute on site i of cell 0), zero states excluded, origin states added"""
    J = lattice_jumps(crys, chem, jn)
    dim = crys.dim
    zero = (0,) * dim
    shell = set(J)
    allst = set(J) if N > 0 else set()
    for _ in range(N - 1):
        nxt = set()
        for (i, j, R) in shell:
            for (j2, k, dR) in J:
                if j2 != j:
                    continue
                s = (i, k, tuple(a + b for a, b in zip(R, dR)))
                if s[0] == s[1] and s[2] == zero:
                    continue
                nxt.add(s)
        allst |= nxt
        shell = nxt
    if OS:
        for i in range(len(crys.basis[chem])):
            allst.add((i, i, zero))
    return allst


def in_set(i, j, R, tuples):
    """formula: (i, j, R) is one of the concrete tuples (i, j concrete ints on this path, R symbolic)"""
    alts = [core.And(*[R[k] == r[k] for k in range(len(r))]) for (ii, jj, r) in tuples if ii == i and jj == j]
    return core.Or(*alts) if alts else False


def state_tuples(sts):
    return [(int(s.i), int(s.j), tuple(int(x) for x in s.R)) for s in sts]


def membership(case):
    def fn(src=None):
        src = src or Src()
        crys, chem, jn, ss, N, OS = build(case)
        dim = crys.dim
        name = 'member:' + case
        sym = src.symbolic
        n = len(crys.basis[chem])
        i = int(src.int('i', 0, n - 1))
        j = int(src.int('j', 0, n - 1))
        R = src.ints('R', dim, -1000, 1000)
        obs = []
        info = src.info(replayer='member', extra={'case': case})

        def ob(nm, v):
            obs.append(('%s:%s' % (name, nm), v, dict(info, sig='member:' + nm.split('@')[0])))
        S = state_tuples(ss.states)
        Rch = reachable(crys, chem, jn, N, OS)
        if sym:
            mem = in_set(i, j, R, S)
            rch = in_set(i, j, R, Rch)
            ob('states-exactly-the-reachable-ones', core.And(core.Implies(mem, rch), core.Implies(rch, mem)))
        else:
            t = (i, j, tuple(int(x) for x in R))
            ob('states-exactly-the-reachable-ones', (t in set(S)) == (t in Rch))
        ob('no-duplicate-states', len(set(S)) == len(S))
        # symmetry: the real PairState.g on the symbolic state; same star
        with shim.symbolic_mode():
            ps = PS.fromcrys_latt(crys, chem, (i, j), R)
            star_tuples = [[S[k] for k in st] for st in ss.stars]
            conds = []
            for g in geom.sorted_ops(crys):
                gps = ps.g(crys, chem, g)
                gi, gj = int(gps.i), int(gps.j)
                for st in star_tuples:
                    if sym:
                        a = in_set(i, j, R, st)
                        b = in_set(gi, gj, gps.R, st)
                        if a is False:
                            continue
                        conds.append(core.Implies(a, b))
                    else:
                        t = (i, j, tuple(int(x) for x in R))
                        gt = (gi, gj, tuple(int(x) for x in gps.R))
                        conds.append((t not in st) or (gt in st))
            ob('stars-closed-under-the-space-group', core.And(*conds) if sym else all(conds))
        if sym:
            obs.append(('twin:%s' % name, in_set(i, j, R, S) if S else False))
        return obs
    return fn


def differences(case):
    def fn(src=None):
        src = src or Src()
        crys, chem, jn, ss, N, OS = build(case)
        dim = crys.dim
        name = 'diff:' + case
        sym = src.symbolic
        n = len(crys.basis[chem])
        i = int(src.int('i', 0, n - 1))
        j1 = int(src.int('j1', 0, n - 1))
        j2 = int(src.int('j2', 0, n - 1))
        R1 = src.ints('R1', dim, -1000, 1000)
        R2 = src.ints('R2', dim, -1000, 1000)
        obs = []
        info = src.info(replayer='diff', extra={'case': case})
        dset = ss.copy(empty=True)
        dset.diffgenerate(ss, ss)
        S = state_tuples(ss.states)
        D = state_tuples(dset.states)
        with shim.symbolic_mode():
            p1 = PS.fromcrys_latt(crys, chem, (i, j1), R1)
            p2 = PS.fromcrys_latt(crys, chem, (i, j2), R2)
            d = p2 ^ p1
            # the endpoint difference by definition (vacancy positions j1,R1 -> j2,R2 seen from the same solute): (j1, j2, R2 - R1)
            di, dj, dR = j1, j2, [R2[k] - R1[k] for k in range(dim)]
            if sym:
                both = core.And(in_set(i, j1, R1, S), in_set(i, j2, R2, S))
                iszero = core.And(*[x == 0 for x in dR]) if di == dj else False
                concl = core.Or(in_set(di, dj, dR, D), iszero)
                obs.append(('%s:difference-in-difference-set' % name, core.Implies(both, concl), dict(info, sig='diff:member')))
                obs.append(('%s:xor-is-the-endpoint-difference' % name,
                            core.And(int(d.i) == di, int(d.j) == dj, *[d.R[k] == dR[k] for k in range(dim)]), dict(info, sig='diff:xor')))
                obs.append(('twin:%s' % name, core.Not(both)))
            else:
                t1, t2 = (i, j1, tuple(int(x) for x in R1)), (i, j2, tuple(int(x) for x in R2))
                dt = (di, dj, tuple(int(x) for x in dR))
                ok = not (t1 in set(S) and t2 in set(S)) or dt in set(D) or (di == dj and all(x == 0 for x in dt[2]))
                obs.append(('%s:difference-in-difference-set' % name, ok, dict(info, sig='diff:member')))
                obs.append(('%s:xor-is-the-endpoint-difference' % name, (int(d.i), int(d.j), tuple(int(x) for x in d.R)) == dt, dict(info, sig='diff:xor')))
        return obs
    return fn


def structure(case):
    """replayable constant obligations on the same objects"""
    def fn(src=None):
        src = src or Src()
        crys, chem, jn, ss, N, OS = build(case)
        name = 'struct:' + case
        obs = []
        info = src.info(replayer='struct', extra={'case': case})

        def ob(nm, v):
            obs.append(('%s:%s' % (name, nm), bool(v), dict(info, sig='struct:' + nm)))
        G = geom.sorted_ops(crys)
        allidx = sorted(k for st in ss.stars for k in st)
        ob('stars-partition-the-states', allidx == list(range(ss.Nstates)) and ss.Nstates == len(ss.states) and ss.Nstars == len(ss.stars))
        S = state_tuples(ss.states)
        one = True
        for st in ss.stars:
            rep = ss.states[st[0]]
            orb = set(state_tuples([rep.g(crys, chem, g) for g in G]))
            if orb != set(S[k] for k in st):
                one = False
        ob('every-star-is-one-orbit', one)
        ok = True
        for k, s in enumerate(ss.states):
            si = ss.index[k]
            if ss.stateindex(s) != k or ss.starindex(s) != si or k not in ss.stars[si] or (s not in ss):
                ok = False
            if not s.__sane__(crys, chem):
                ok = False
        far = PS.fromcrys_latt(crys, chem, (0, 0), np.array([7] * crys.dim))
        ok = ok and ss.stateindex(far) is None and ss.starindex(far) is None and (far not in ss)
        ob('index-lookups-consistent', ok)
        ob('zero-states-only-when-requested', all((not s.iszero()) or OS for s in ss.states) and
           ((not OS) or all(PS.zero(i, crys.dim) in ss for i in range(len(crys.basis[chem])))))
        # addition == generation with the summed range (both splits)
        same = True
        for n1 in range(1, N):
            a = stars.StarSet(jn, crys, chem, n1, originstates=OS)
            b = stars.StarSet(jn, crys, chem, N - n1, originstates=OS)
            try:
                c = a + b
            except Exception:   # an exception of the real code is a failure of the law, not of the harness
                same = False
                continue
            if set(state_tuples(c.states)) != set(S):
                same = False
            if set(frozenset(state_tuples([c.states[k] for k in st])) for st in c.stars) != \
                    set(frozenset(S[k] for k in st) for st in ss.stars):
                same = False
        # operands of DIFFERENT range, in both orders, against generation with the summed range (N + 1 <= 3)
        if N + 1 <= 3:
            try:
                one_ = stars.StarSet(jn, crys, chem, 1, originstates=OS)
                big = set(state_tuples(stars.StarSet(jn, crys, chem, N + 1, originstates=OS).states))
                for c in (one_ + ss, ss + one_):
                    if set(state_tuples(c.states)) != big or c.Nshells != N + 1:
                        same = False
            except Exception:
                same = False
        ob('sum-equals-generate-with-summed-range', same)
        # in-place accumulation history: an empty set takes over a one-range set and then grows by it again and
        # again; after every step the accumulator is the k-range set and the operand is still the one-range set
        def consistent(x):
            return (x.Nstates == len(x.states) and x.Nstars == len(x.stars) and len(x.index) == x.Nstates and
                    sorted(k for st in x.stars for k in st) == list(range(x.Nstates)) and
                    all(x.stateindex(s) == k for k, s in enumerate(x.states)))
        acc_ok = True
        one = stars.StarSet(jn, crys, chem, 1, originstates=OS)
        one_states = state_tuples(one.states)
        acc = one.copy(empty=True)
        want = {1: set(one_states), N: set(S)}
        for k in range(1, N + 1):
            try:
                acc += one
            except Exception:
                acc_ok = False
                break
            if k not in want:
                want[k] = set(state_tuples(stars.StarSet(jn, crys, chem, k, originstates=OS).states))
            if set(state_tuples(acc.states)) != want[k] or acc.Nshells != k or not consistent(acc):
                acc_ok = False
            if state_tuples(one.states) != one_states or one.Nshells != 1 or not consistent(one):
                acc_ok = False
        cp = ss.copy()
        cp += one
        if state_tuples(ss.states) != S or not consistent(ss) or not consistent(cp) or cp.Nshells != N + 1:
            acc_ok = False
        ob('accumulation-history-keeps-operands-and-sums', acc_ok)
        # regeneration history on ONE object: every generate() call must leave the set that was asked for LAST
        # (same range with / without origin states, another range and back)
        def same_as(x, n, os_):
            ref = set(S) if (n, os_) == (N, OS) else set(state_tuples(stars.StarSet(jn, crys, chem, n, originstates=os_).states))
            return set(state_tuples(x.states)) == ref and consistent(x)
        regen = True
        h = stars.StarSet(jn, crys, chem, N, originstates=OS)
        for n, os_ in ((N, not OS), (N, OS), (N - 1, OS), (N, OS), (N, not OS)):
            h.generate(n, originstates=os_)
            if not same_as(h, n, os_):
                regen = False
        ob('regeneration-history-leaves-the-last-request', regen)
        return obs
    return fn


QUICK = ['square-2', 'sc-2', 'hcp-2', 'honeycomb-2', 'rect2-2', 'oblique-c1-2', 'omega-2', 'b2-2', 'diamond-2', 'dimer-2']
THOROUGH = QUICK + ['dimer-3', 'square-3', 'fcc-2', 'honeycomb-3', 'p222-2', 'tric-c1-2', 'hcp-3']
DIFF_Q = ['square-2', 'rect2-2', 'honeycomb-2', 'oblique-c1-2']
DIFF_T = DIFF_Q + ['hcp-2', 'sc-2', 'omega-2']


def sections(tier):
    S = run.Section
    bud = 170 if tier == 'quick' else 1200
    secs = []
    for c in (QUICK if tier == 'quick' else THOROUGH):
        secs.append(S('member:' + c, membership(c), budget_s=bud, replayer='member', config=c, maxpaths=400, timeout_ms=30000))
        secs.append(S('struct:' + c, structure(c), budget_s=bud, replayer='struct', config=c, maxpaths=2, timeout_ms=30000))
    for c in (DIFF_Q if tier == 'quick' else DIFF_T):
        secs.append(S('diff:' + c, differences(c), budget_s=bud, replayer='diff', config=c, maxpaths=400, timeout_ms=30000))
    return secs


def main():
    import warnings
    warnings.simplefilter('ignore')
    if REPLAY:
        run.replay_main('C24', {'member': lambda rec: harness.run_laws_concrete(membership(rec['extra']['case']), rec),
                                'diff': lambda rec: harness.run_laws_concrete(differences(rec['extra']['case']), rec),
                                'struct': lambda rec: harness.run_laws_concrete(structure(rec['extra']['case']), rec)})
    SS = stars.StarSet
    chk = run.Check(
        'C24',
        functions=[loader.func_hash(f) for f in (SS.generate, SS.__iadd__, SS.__add__, SS.diffgenerate, SS.stateindex, SS.starindex,
                                                 SS.copy, PS.g, PS.__add__, PS.__xor__, PS.fromcrys_latt, crystal.Crystal.g_pos)],
        assumptions=[
            'crystals / networks / shell numbers / origin-state flags enumerated (square, SC, FCC, HCP, honeycomb, diamond, B2 with the second '
            'species mobile, omega, rect-2-site, chiral P222, cells with C1 sites; N <= 3)',
            'the pair state is symbolic in its lattice vector (integers in [-1000, 1000]^d, decided for all of them) and case-split in its two '
            'site indices; membership in a finite state list is the disjunction over its entries',
            'the reference for "reachable by 1..N jumps" is an independent breadth-first composition of the network in lattice form built '
            'by the harness from the Cartesian jump vectors',
            'StarSet.stateindex / starindex go through a dictionary keyed by the state hash: they are exercised on concrete states only '
            '(every member and one far non-member)',
        ],
        explanation='Real StarSet.generate / diffgenerate / addition and PairState.g, ^ on a pair state with symbolic lattice vector: '
                    'membership == reachability, stars closed under every operation, endpoint differences in the difference set decided by '
                    'z3 (QF_LIA); partition, single-orbit stars, look-ups and sum == generate on the same run.',
        bounds='quick: %s; thorough: %s; differences: %s / %s' % (QUICK, THOROUGH, DIFF_Q, DIFF_T))
    chk.run(sections(chk.tier))
    chk.finish()


if __name__ == '__main__':
    main()
