"""C17 Taylor-expansion change of variables and inversion are exact.

Rotation: transformation matrices enumerated from a list of dyadic, invertible, NON-orthogonal matrices;
parity-consistent expansions with a fully symbolic coefficient block; rotate(f)(p) == f(Q p) at a
unisolvent set of points p, where f is the homogeneous function sum_n |q|^n P_n(q/|q|) (QF_LRA).
Inversion: concrete invertible isotropic leading matrix, symbolic tail; inv(Nmax) * c == identity through
order Nmax: orders that are linear in the tail with ALL tail entries symbolic, the quadratic order through
one-parameter families tail = t * B (z3 decides the univariate polynomial identity)."""
import sys

import numpy as np

from symx import run, loader

REPLAY = run.is_replay()
if REPLAY:
    loader.install_plain()
else:
    loader.install()

from onsager import PowerExpansion as PE   # noqa: E402
from symx import core, harness, shim   # noqa: E402
from symx.core import ENG, Sym   # noqa: E402
from symx.harness import Src   # noqa: E402
from symx.shim import SymArray   # noqa: E402
sys.path.insert(0, __file__.rsplit('/', 1)[0])
import taylor   # noqa: E402

QS = {
    3: [np.array([[1, 0.5, 0], [0.25, 1, -0.5], [0, 0.25, 1.5]]), np.array([[0.5, 0, 1], [1, 0.75, 0], [-0.25, 1, 0.5]]),
        np.array([[2, 0, 0], [0, 0.5, 0], [0, 0, 1.25]]), np.array([[0, 1, 0], [-1, 0, 0.5], [0.5, 0, 1]])],
    2: [np.array([[1, 0.5], [0.25, 1.5]]), np.array([[0.5, -1], [1, 0.75]]), np.array([[2, 0], [0, 0.5]]), np.array([[0, 1], [-1, 0.5]])],
}


def parity_mask(T, n, l):
    return np.array([1.0 if (sum(T.ind2pow[p]) - n) % 2 == 0 else 0.0 for p in range(T.powlrange[l])])


def homog(Tobj, q):
    """value of the homogeneous function represented by the expansion at the (unnormalised) point q"""
    fnu = {(n, l): (lambda u, n=n: u ** n) for n, l, c in Tobj.coefflist}
    return Tobj(q, fnu)


def rotation(dim, qi, case):
    def fn(src=None):
        src = src or Src()
        name = 'rotate:%dD:q%d:%d' % (dim, qi, case)
        with shim.symbolic_mode():
            T = taylor.cls(dim)
            Q = QS[dim][qi]
            rng = np.random.RandomState(11 + case)
            ns, ls = [(2, 2), (3, 3), (4, 2), (3, 1), (4, 4), (1, 1)][case % 6]
            mask = parity_mask(T, ns, ls)
            blk = taylor.sym_block(src, T, 'c', ls, ())
            if src.symbolic:
                blk = SymArray([blk[p] * mask[p] if mask[p] else 0.0 for p in range(len(mask))])
            else:
                blk = blk * mask
            n2, l2 = [(1, 1), (2, 0), (2, 2), (4, 4)][case % 4]
            other = taylor.conc_block(T, rng, l2, ()) * parity_mask(T, n2, l2)
            terms = [(ns, ls, blk)] + ([(n2, l2, other)] if n2 != ns else [])
            a = T(terms)
            npow = T.rotatedirections(Q)
            r = a.rotate(npow)
            ri = a.copy()
            ri.irotate(npow)
            pts = taylor.points(dim, True)[:14 if dim == 3 else 9]
            pts = [p * s for p, s in zip(pts, [1.0, 0.5, 1.5, 0.75, 2.0, 1.25, 0.875] * 3)]
            sym = src.symbolic
            obs = []
            info = src.info(replayer='rotate', extra={'dim': dim, 'qi': qi, 'case': case})
            conds, condsi = [], []
            for p in pts:
                lhs, lhsi, rhs = homog(r, p), homog(ri, p), homog(a, np.dot(Q, p))
                conds.append(harness.close([lhs], [rhs], 1e-8))
                condsi.append(harness.close([lhsi], [rhs], 1e-8))
            obs.append(('%s:rotate' % name, core.And(*conds) if sym else all(conds), dict(info, sig='rotate')))
            obs.append(('%s:irotate' % name, core.And(*condsi) if sym else all(condsi), dict(info, sig='irotate')))
            if sym:
                obs.append(('twin:%s:shifted' % name, harness.close([homog(r, pts[0])], [homog(a, np.dot(Q, pts[0])) + 1e-6], 1e-8)))
        return obs
    return fn


LEADS = {1: [np.array([[2.0]]), np.array([[-0.5]])],
         2: [np.array([[1.5, 0.5], [0.25, 1.0]]), np.array([[1.0, -0.5], [0.5, 2.0]])],
         3: [np.array([[1.0, 0.5, 0.0], [0.0, 2.0, 0.25], [0.5, 0.0, 1.5]])]}


def inversion(dim, N, li, Nmax, family):
    """family False: all tail entries symbolic, only the orders linear in the tail (Nmax <= 1 with tail starting at n=1);
    family True: tail = t * B with symbolic t, orders up to Nmax (polynomial in t)"""
    def fn(src=None):
        src = src or Src()
        name = 'inverse:%dD:N%d:l%d:Nmax%d:%s' % (dim, N, li, Nmax, 'fam' if family else 'lin')
        with shim.symbolic_mode():
            T = taylor.cls(dim)
            A = LEADS[N][li % len(LEADS[N])]
            rng = np.random.RandomState(7 + li + N)
            shape = (N, N)
            sym = src.symbolic
            lead = A.reshape((1,) + shape)
            if sym:
                lead = lead.astype(object).view(SymArray)
            if family:
                t = src.real('t', -1, 1)
                B1 = taylor.conc_block(T, rng, 1, shape)
                B2 = taylor.conc_block(T, rng, 2, shape)
                tail = [(1, 1, B1 * t), (2, 2, B2 * t)]
            else:
                tail = [(1, 1, taylor.sym_block(src, T, 'b1', 1, shape)), (2, 2, taylor.sym_block(src, T, 'b2', 2, shape))]
            c = T([(0, 0, lead)] + tail)
            ci = c.inv(Nmax)
            P = ci * c
            P2 = c * ci
            pts = taylor.points(dim)
            obs = []
            info = src.info(replayer='inverse', extra={'dim': dim, 'N': N, 'li': li, 'Nmax': Nmax, 'family': family})
            for nm, X in (('inv*c', P), ('c*inv', P2)):
                conds = []
                for u in pts:
                    ev = taylor.evalsum(X, u)
                    for n, v in ev.items():
                        if n > Nmax:
                            continue
                        target = np.eye(N) if n == 0 else np.zeros((N, N))
                        conds.append(harness.close(np.asarray(v, dtype=object).ravel(), target.ravel(), 1e-8))
                obs.append(('%s:%s' % (name, nm), core.And(*conds) if sym else all(conds), dict(info, sig='inverse:' + nm)))
            if sym:
                obs.append(('twin:%s:shifted' % name, harness.close([np.asarray(taylor.evalsum(P, pts[0])[0], dtype=object).ravel()[0]], [1 + 1e-6], 1e-8)))
        return obs
    return fn


def plan(tier):
    P = []
    if tier == 'quick':
        for dim in (3, 2):
            P += [('rotate', dim, 0, 0), ('rotate', dim, 1, 1), ('rotate', dim, 3, 2), ('rotate', dim, 2, 4)]
            P += [('inverse', dim, 2, 0, 1, False), ('inverse', dim, 2, 1, 2, True), ('inverse', dim, 1, 0, 2, True), ('inverse', dim, 2, 0, 0, False)]
    else:
        for dim in (3, 2):
            for qi in range(4):
                for case in range(6):
                    P.append(('rotate', dim, qi, case))
            for N in (1, 2, 3):
                for li in range(len(LEADS[N])):
                    for Nmax in (0, 1):
                        P.append(('inverse', dim, N, li, Nmax, False))
                    for Nmax in (1, 2):
                        P.append(('inverse', dim, N, li, Nmax, True))
    return P


def mk(p):
    return rotation(p[1], p[2], p[3]) if p[0] == 'rotate' else inversion(p[1], p[2], p[3], p[4], p[5])


def sections(tier):
    S = run.Section
    return [S(':'.join(map(str, p)), mk(p), budget_s=170 if tier == 'quick' else 1200, replayer=p[0], config='%dD' % p[1],
              maxpaths=64, timeout_ms=60000 if tier == 'quick' else 120000) for p in plan(tier)]


def main():
    import warnings
    warnings.simplefilter('ignore')
    if REPLAY:
        run.replay_main('C17', {
            'rotate': lambda rec: harness.run_laws_concrete(rotation(rec['extra']['dim'], rec['extra']['qi'], rec['extra']['case']), rec),
            'inverse': lambda rec: harness.run_laws_concrete(inversion(rec['extra']['dim'], rec['extra']['N'], rec['extra']['li'],
                                                                       rec['extra']['Nmax'], rec['extra']['family']), rec)})
    T = PE.Taylor3D
    chk = run.Check(
        'C17',
        functions=[loader.func_hash(f) for f in (T.rotatedirections, PE.Taylor2D.rotatedirections, T.rotatecoeff, T.rotate, T.irotate,
                                                 T.inversecoeff, T.inv, T.tensorproductcoeff, T.coeffproductcoeff, T.sumcoeff)],
        assumptions=[
            'rotation: transformation matrices enumerated (4 dyadic invertible non-orthogonal matrices per dimension); one symbolic '
            'parity-consistent coefficient block (reals in [-1,1]) plus a concrete companion; equality at 14 (3-D) / 9 (2-D) non-unit '
            'points, to 1e-8 (the rotated expansion is linear in the coefficients)',
            'inversion: leading matrix enumerated (1x1, 2x2, 3x3, non-commuting with the tail); orders linear in the tail with every tail '
            'entry symbolic; the quadratic order through one-parameter families tail = t*B, t symbolic in [-1,1]; identity checked for '
            'inv*c and c*inv at the unisolvent evaluation set for every radial order <= Nmax',
            'real coefficients only; Lmax = 4',
        ],
        explanation='Real rotatedirections/rotate/irotate and inversecoeff executed with symbolic coefficients; compared with the '
                    'function composed with the linear map / with the identity expansion (z3: LRA, univariate polynomial identities).',
        bounds='2-D and 3-D; quick: 4 rotation and 4 inversion cases per dimension; thorough: all matrices x 6 blocks, leading matrices of size 1-3, Nmax 0..2')
    chk.run(sections(chk.tier))
    chk.finish()


if __name__ == '__main__':
    main()
