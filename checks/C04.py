"""C04 invariance under reference choices; scaling with rates.

(a) VacancyMediated.preene2betafree on fully symbolic arrays (energies, positive prefactors, kT):
    outputs unchanged under a common energy shift of one species and its transition states, a joint
    prefactor scaling, and (kT, energies) -> (lambda kT, lambda energies).
(b) Interstitial.diffusivity executed twice on symbolic inputs: common shift, joint prefactor scaling
    leave D unchanged; multiplying every transition prefactor by lambda multiplies D by lambda."""
import sys

import numpy as np

from symx import run, loader

REPLAY = run.is_replay()
if REPLAY:
    loader.install_plain()
else:
    loader.install()

from onsager import OnsagerCalc   # noqa: E402
from symx import core, harness, contracts, shim   # noqa: E402
from symx.core import ENG, Sym   # noqa: E402
from symx.shim import SymArray   # noqa: E402
sys.path.insert(0, __file__.rsplit('/', 1)[0])
import inter   # noqa: E402

NAMES = ['V', 'S', 'SV', 'T0', 'T1', 'T2']


# ---- (a) preene2betafree ------------------------------------------------------------------
class P2B:
    def __init__(self, shape, vals=None):
        self.shape = shape
        self.vals = vals
        self.inputs = {}
        if vals is None:
            self.kT = Sym(core.z3.Real('kT'))
            ENG.assume(self.kT > 0)
            self.inputs['kT'] = self.kT
            self.ene = {n: [self._real('ene%s_%d' % (n, k)) for k in range(m)] for n, m in zip(NAMES, shape)}
            self.lpre = {n: [contracts.logvar('lpre%s_%d' % (n, k)) for k in range(m)] for n, m in zip(NAMES, shape)}
            for n in NAMES:
                for k in range(len(self.lpre[n])):
                    self.inputs['y_lpre%s_%d' % (n, k)] = Sym(ENG.logv['lpre%s_%d' % (n, k)][1])
            self.c = self._real('c')
            self.ls = contracts.logvar('ls')
            self.inputs['y_ls'] = Sym(ENG.logv['ls'][1])
            self.lam = self._real('lam')
            ENG.assume(self.lam > 0)
        else:
            self.kT = float(vals['kT'])
            self.ene = {n: [float(vals['ene%s_%d' % (n, k)]) for k in range(m)] for n, m in zip(NAMES, shape)}
            self.lpre = {n: [2 * np.log(float(vals['y_lpre%s_%d' % (n, k)])) for k in range(m)] for n, m in zip(NAMES, shape)}
            self.c = float(vals['c'])
            self.ls = 2 * np.log(float(vals['y_ls']))
            self.lam = float(vals['lam'])

    def _real(self, name):
        x = Sym(core.z3.Real(name))
        self.inputs[name] = x
        return x

    def call(self, kT=None, dene=None, dlpre=None, escale=None):
        """call the real preene2betafree with energies shifted (dene[name]), log-prefactors shifted (dlpre[name]),
        energies scaled (escale)"""
        kT = self.kT if kT is None else kT
        args = []
        for n in NAMES:
            e = [x + (dene or {}).get(n, 0) for x in self.ene[n]]
            if escale is not None:
                e = [x * escale for x in e]
            lp = [x + (dlpre or {}).get(n, 0) for x in self.lpre[n]]
            if self.vals is None:
                pre = SymArray([contracts.sym_exp(x) for x in lp])
                e = SymArray(e)
            else:
                pre = np.exp(np.array(lp, dtype=float))
                e = np.array(e, dtype=float)
            args += [pre, e]
        with shim.symbolic_mode():
            return OnsagerCalc.VacancyMediated.preene2betafree(kT, *args)


def eq_out(a, b, symbolic):
    conds = []
    for x, y in zip(a, b):
        conds.append(harness.exact_eq(x, y) if symbolic else harness.close(x, y, 1e-9))
    return core.And(*conds) if symbolic else all(conds)


def p2b(shape):
    def fn(src=None):
        vals = None if src is None else src.vals
        p = P2B(shape, vals)
        name = 'p2b:' + ''.join(map(str, shape))
        sym = vals is None
        info = {'inputs': p.inputs, 'replayer': 'p2b', 'extra': {'shape': list(shape)}}
        base = p.call()
        obs = []

        def ob(n, v):
            obs.append(('%s:%s' % (name, n), v, dict(info, sig='p2b:' + n)))
        c, ls, lam = p.c, p.ls, p.lam
        ob('vacancy-energy-shift', eq_out(base, p.call(dene={'V': c, 'T0': c, 'T1': c, 'T2': c}), sym))
        ob('solute-energy-shift', eq_out(base, p.call(dene={'S': c, 'T1': c, 'T2': c}), sym))
        ob('vacancy-prefactor-scaling', eq_out(base, p.call(dlpre={'V': ls, 'T0': ls, 'T1': ls, 'T2': ls}), sym))
        ob('solute-prefactor-scaling', eq_out(base, p.call(dlpre={'S': ls, 'T1': ls, 'T2': ls}), sym))
        ob('kT-coscaling', eq_out(base, p.call(kT=p.kT * lam, escale=lam), sym))
        # outputs are referenced to their minima
        if sym:
            ob('bFV-min-zero', core.And(core.And(*[x >= 0 for x in base[0]]), core.Or(*[x == 0 for x in base[0]])))
            ob('bFS-min-zero', core.And(core.And(*[x >= 0 for x in base[1]]), core.Or(*[x == 0 for x in base[1]])))
            obs.append(('twin:%s:shift-only-V' % name, eq_out(base, p.call(dene={'V': c}), True), {'hyp': [c.z == 1]}))
        else:
            ob('bFV-min-zero', abs(min(base[0])) < 1e-12)
            ob('bFS-min-zero', abs(min(base[1])) < 1e-12)
        return obs
    return fn


# ---- (b) interstitial ---------------------------------------------------------------------
def two_runs(calc, inp, inp2):
    D1, _ = inter.run_diffusivity(calc, inp)
    D2, _ = inter.run_diffusivity(calc, inp2)
    return D1, D2


class Derived(inter.Inputs):
    """inputs derived from another set by shifts/scalings (all through the monomial algebra)"""

    def __init__(self, base, dE=0, dT=0, sP=1, sQ=1):
        self.nw, self.nt, self.tag = base.nw, base.nt, base.tag
        self.E = [e + dE for e in base.E]
        self.T = [t + dT for t in base.T]
        self.P = [p * sP for p in base.P]
        self.Q = [q * sQ for q in base.Q]
        self.inputs = base.inputs


def interstitial(cname):
    def fn(src=None):
        crys, calc, jn = inter.get_calc(cname)
        name = 'inter:' + cname
        if src is None:
            inp = inter.Inputs(calc)
            c = contracts.logvar('c')
            s = contracts.positive('s')
            lam = contracts.positive('lam')
            inp.inputs.update({'y_c': Sym(ENG.logv['c'][1]), 'y_s': Sym(ENG.logv['s'][1]), 'y_lam': Sym(ENG.logv['lam'][1])})
            run1 = lambda i: inter.run_diffusivity(calc, i)[0]    # noqa: E731
            eq = harness.exact_eq
        else:
            v = src.vals
            inp = inter.Inputs(calc, vals=v)
            c = 2 * np.log(float(v['y_c']))
            s = float(v['y_s']) ** 2
            lam = float(v['y_lam']) ** 2

            def run1(i):
                return calc.diffusivity(*i.arrays(symbolic=False))

            def eq(a, b):
                sc = max(np.abs(np.asarray(b, dtype=float)).max(), 1e-300)
                return bool(np.abs(np.asarray(a, dtype=float) - np.asarray(b, dtype=float)).max() <= 1e-8 * sc)
        info = {'inputs': inp.inputs, 'replayer': 'inter', 'extra': {'crystal': cname}}
        if src is None:
            info['probe'] = [inter.concrete_instance(inp, k) for k in (0, 5)]
        D = run1(inp)
        obs = []

        def ob(n, v):
            obs.append(('%s:%s' % (name, n), v, dict(info, sig='inter:' + n)))
        D_shift = run1(Derived(inp, dE=c, dT=c))
        D_pref = run1(Derived(inp, sP=s, sQ=s))
        Dl = run1(Derived(inp, sQ=lam))
        if src is None:
            inter.link_runs(0, 1)
            inter.link_runs(0, 2)
            inter.link_runs(0, 3, scale=lam)
        ob('energy-shift', eq(D_shift, D))
        ob('joint-prefactor-scaling', eq(D_pref, D))
        ob('rate-scaling', eq(Dl, D * lam))
        if src is None:
            obs.append(('twin:%s:rate-scaling-squared' % name, harness.exact_eq(Dl[0, 0], D[0, 0] * lam * lam),
                        {'hyp': inter.concrete_instance(inp, fixed={'y_lam': 2}), 'timeout_ms': 20000}))
        return obs
    return fn


SHAPES_Q = [(2, 1, 2, 2, 2, 1), (1, 2, 1, 1, 2, 2)]
SHAPES_T = SHAPES_Q + [(3, 1, 2, 2, 3, 2), (2, 2, 3, 1, 2, 1), (1, 1, 1, 1, 1, 1), (3, 3, 1, 2, 1, 2)]


def sections(tier):
    S = run.Section
    secs = []
    for sh in (SHAPES_Q if tier == 'quick' else SHAPES_T):
        secs.append(S('p2b:' + ''.join(map(str, sh)), p2b(sh), budget_s=170 if tier == 'quick' else 1500, replayer='p2b',
                      config='preene2betafree %s' % (sh,), timeout_ms=30000))
    for c in (['X1s', 'X1', 'X4r'] if tier == 'quick' else ['X1s', 'X1', 'X4r', 'X2', 'X2b', 'X3']):
        secs.append(S('inter:' + c, interstitial(c), budget_s=170 if tier == 'quick' else 1200, replayer='inter', config=c,
                      timeout_ms=60000 if tier == 'quick' else 120000))
    return secs


def main():
    import warnings
    warnings.simplefilter('ignore')
    if REPLAY:
        run.replay_main('C04', {
            'p2b': lambda rec: harness.run_laws_concrete(p2b(tuple(rec['extra']['shape'])), rec),
            'inter': lambda rec: harness.run_laws_concrete(interstitial(rec['extra']['crystal']), rec)})
    chk = run.Check(
        'C04',
        functions=[loader.func_hash(f) for f in (OnsagerCalc.VacancyMediated.preene2betafree, OnsagerCalc.Interstitial.diffusivity,
                                                 OnsagerCalc.Interstitial.siteprob, OnsagerCalc.Interstitial.ratelist,
                                                 OnsagerCalc.Interstitial.symmratelist)],
        assumptions=[
            'floats as reals; prefactors are positive reals passed as exp(L) (monomial algebra), kT>0, lambda>0',
            'preene2betafree: array lengths enumerated (<=3 each); all entries symbolic; every np.min path explored',
            'Interstitial part on exact verification crystals only (see C02); solve/pinv contracts including their uniqueness instances (scipy solve raises on singular matrices; the Moore-Penrose inverse is unique)',
            'NOT covered: homogeneity/invariance of VacancyMediated.Lij itself (numerical Green function) and invariance under '
            'intra-cell site displacement (two different crystals): a change confined to Lij is not detected by this check',
        ],
        explanation='Real preene2betafree and Interstitial.diffusivity executed twice on symbolic inputs related by the '
                    'reference change; outputs compared term-wise by z3 (exact real algebra).',
        bounds='preene2betafree shapes %s (quick) / %s (thorough); interstitial on X1s, X1, X4r, X2 (+X2b, X3 thorough)' % (SHAPES_Q, SHAPES_T))
    chk.run(sections(chk.tier))
    chk.finish()


if __name__ == '__main__':
    main()
