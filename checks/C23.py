"""C23 coordinate conversions and symmetry actions are mutually consistent.

Crystals and operations are enumerated; lattice vectors (integers), unit-cell coordinates,
Cartesian points, directions, tensors, pair states and cluster sites are symbolic, so each
obligation is decided for ALL of them (QF_LIRA)."""
import sys

import numpy as np

from symx import run, loader

REPLAY = run.is_replay()
if REPLAY:
    loader.install_plain()
else:
    loader.install()

from onsager import crystal, crystalStars, cluster   # noqa: E402
from symx import core, harness   # noqa: E402
from symx.core import ENG   # noqa: E402
from symx.harness import Src   # noqa: E402
sys.path.insert(0, __file__.rsplit('/', 1)[0])
import geom   # noqa: E402
from geom import close, int_eq, TOL   # noqa: E402

PS = crystalStars.PairState
CS = cluster.ClusterSite


def roundtrip(cname):
    """conversions between lattice / unit-cell / Cartesian coordinates round-trip; incell/inhalf ranges"""
    def fn(src=None):
        src = src or Src()
        crys = geom.get_crystal(cname)
        dim = crys.dim
        name = 'roundtrip:' + cname
        obs = []

        def ob(n, v):
            obs.append(('%s:%s' % (name, n), v, src.info(sig='roundtrip:' + n, replayer='roundtrip', extra={'crystal': cname})))
        # the Cartesian->unit conversions take a floor of invlatt*(lattice*(R+u)); when invlatt*lattice is not exactly
        # the identity over the rationals the integer search over R does not terminate in any available solver
        # (z3 4.8/5.1, cvc5: timeout) beyond small |R|: bound stated per crystal
        R = geom.sym_R(src, 'R', dim, geom.RMAX if geom.exact_inverse(crys) else 4)
        u = geom.sym_u(src, 'u', dim)
        x = crys.unit2cart(R, u)
        R2, u2 = crys.cart2unit(x)
        ob('cart2unit(unit2cart)-R', int_eq(R2, R))
        ob('cart2unit(unit2cart)-u', close(u2, u))
        ob('unit2cart(cart2unit)', close(crys.unit2cart(R2, u2), x))
        for ci in crys.atomindices:
            xp = crys.pos2cart(R, ci)
            R3, ci3 = crys.cart2pos(xp)
            ob('cart2pos(pos2cart)-%d.%d' % ci, (ci3 == ci) and int_eq(R3, R))
            ob('pos2cart==unit2cart-%d.%d' % ci, close(xp, crys.unit2cart(R, crys.basis[ci[0]][ci[1]])))
        # a generic point is not an atom (guard: at least 1e-3 from every basis position in some coordinate)
        v = src.reals('v', dim, -8, 8)
        iv = crystal.incell(v)
        hv = crystal.inhalf(v)
        ob('incell-range', core.And(*[core.And(c >= -1e-8, c < 1) for c in iv]) if src.symbolic else
           all(-1e-8 <= c < 1 for c in iv))
        ob('inhalf-range', core.And(*[core.And(c >= -0.5, c < 0.5) for c in hv]) if src.symbolic else
           all(-0.5 <= c < 0.5 for c in hv))
        d1 = v - iv
        d2 = v - hv
        if src.symbolic:
            ob('incell-integer-shift', core.And(*[c == c.floor() for c in d1]))
            ob('inhalf-integer-shift', core.And(*[c == c.floor() for c in d2]))
            obs.append(('twin:%s:u-shifted' % name, close(u2, u + 1e-6)))
        else:
            ob('incell-integer-shift', bool(np.allclose(d1, np.round(d1), atol=1e-9)))
            ob('inhalf-integer-shift', bool(np.allclose(d2, np.round(d2), atol=1e-9)))
        return obs
    return fn


def actions(cname, gsel, gstride):
    """every route of applying one operation agrees (positions, vectors, directions, tensors,
    pair states, cluster sites); inverse acts as inverse"""
    def fn(src=None):
        src = src or Src()
        crys = geom.get_crystal(cname)
        dim = crys.dim
        G = geom.sorted_ops(crys)
        name = 'actions:%s:%d' % (cname, gsel)
        obs = []
        R = geom.sym_R(src, 'R', dim)
        R2 = geom.sym_R(src, 'S', dim)
        u = geom.sym_u(src, 'u', dim)
        x = geom.sym_x(src, 'x', dim)
        d = geom.sym_x(src, 'd', dim)
        T = src.reals('T', (dim, dim), -8, 8)
        zero = np.zeros(dim, dtype=int)
        for gi in range(gsel, len(G), gstride):
            g = G[gi]

            def ob(n, v):
                obs.append(('%s:g%d:%s' % (name, gi, n), v,
                            src.info(sig='actions:' + n.split('-')[0], replayer='actions',
                                     extra={'crystal': cname, 'gsel': gsel, 'gstride': gstride})))
            ginv = g.inv()
            Lrot = geom.lattice_route_rot(crys, g)
            ob('g_cart-lattice-route', close(crys.g_cart(g, x), np.dot(Lrot, x) + np.dot(crys.lattice, g.trans)))
            ob('g_direc-lattice-route', close(crystal.Crystal.g_direc(g, d), np.dot(Lrot, d)))
            ob('g_cart-difference', close(crys.g_cart(g, x + d) - crys.g_cart(g, x), crystal.Crystal.g_direc(g, d)))
            ob('g_tensor-lattice-route', close(crystal.Crystal.g_tensor(g, T), np.dot(Lrot, np.dot(T, Lrot.T))))
            gR, gu = crystal.Crystal.g_vect(g, R, u)
            ob('g_vect-vs-g_cart', close(crys.unit2cart(gR, gu), crys.g_cart(g, crys.unit2cart(R, u))))
            ob('g_vect-incell', core.And(*[core.And(c >= -1e-8, c < 1) for c in gu]) if src.symbolic else
               all(-1e-8 <= c < 1 for c in gu))
            ob('g_cart-inverse', close(crys.g_cart(ginv, crys.g_cart(g, x)), x))
            for ci in crys.atomindices:
                gRp, gci = crys.g_pos(g, R, ci)
                ob('g_pos-vs-g_cart-%d.%d' % ci, close(crys.pos2cart(gRp, gci), crys.g_cart(g, crys.pos2cart(R, ci))))
                ob('g_pos-species-%d.%d' % ci, gci[0] == ci[0])
                bR, bci = crys.g_pos(ginv, gRp, gci)
                ob('g_pos-inverse-%d.%d' % ci, (bci == ci) and int_eq(bR, R))
                site = CS(ci=ci, R=R)
                gs = site.g(crys, g)
                ob('ClusterSite.g-%d.%d' % ci, close(crys.pos2cart(gs.R, gs.ci), crys.g_cart(g, crys.pos2cart(R, ci))))
            for chem in range(crys.Nchem):
                n = len(crys.basis[chem])
                for i in range(n):
                    for j in range(n):
                        ps = PS.fromcrys_latt(crys, chem, (i, j), R2)
                        gps = ps.g(crys, chem, g)
                        # the image pair connects the images of the two atoms, re-based so that the first is in cell 0
                        xi = crys.g_cart(g, crys.pos2cart(zero, (chem, i)))
                        xj = crys.g_cart(g, crys.pos2cart(R2, (chem, j)))
                        ob('PairState.g-dx-%d.%d.%d' % (chem, i, j), close(gps.dx, xj - xi))
                        ob('PairState.g-ends-%d.%d.%d' % (chem, i, j),
                           close(crys.pos2cart(gps.R, (chem, gps.j)) - crys.pos2cart(zero, (chem, gps.i)), xj - xi))
                        ob('PairState.g-sites-%d.%d.%d' % (chem, i, j),
                           gps.i == g.indexmap[chem][i] and gps.j == g.indexmap[chem][j])
            if src.symbolic and gi == gsel:
                obs.append(('twin:%s:g_vect-shifted' % name, close(crys.unit2cart(gR, gu), crys.g_cart(g, crys.unit2cart(R, u)) + 1e-6)))
        return obs
    return fn


def composition(cname, psel, pstride):
    """(g1*g2) acts as g1 after g2, by every route; the product (mod lattice translation) is again listed"""
    def fn(src=None):
        src = src or Src()
        crys = geom.get_crystal(cname)
        dim = crys.dim
        G = geom.sorted_ops(crys)
        Gset = set(G)
        name = 'compose:%s:%d' % (cname, psel)
        obs = []
        R = geom.sym_R(src, 'R', dim)
        x = geom.sym_x(src, 'x', dim)
        u = geom.sym_u(src, 'u', dim)
        k = -1
        for i1, g1 in enumerate(G):
            for i2, g2 in enumerate(G):
                k += 1
                if k % pstride != psel:
                    continue

                def ob(n, v):
                    obs.append(('%s:g%d*g%d:%s' % (name, i1, i2, n), v,
                                src.info(sig='compose:' + n.split('-')[0], replayer='compose',
                                         extra={'crystal': cname, 'psel': psel, 'pstride': pstride})))
                g12 = g1 * g2
                ob('g_cart', close(crys.g_cart(g12, x), crys.g_cart(g1, crys.g_cart(g2, x))))
                for ci in crys.atomindices:
                    Ra, cia = crys.g_pos(g12, R, ci)
                    Rb, cib = crys.g_pos(g1, *crys.g_pos(g2, R, ci))
                    ob('g_pos-%d.%d' % ci, (cia == cib) and int_eq(Ra, Rb))
                R1, u1 = crystal.Crystal.g_vect(g12, R, u)
                R2, u2 = crystal.Crystal.g_vect(g2, R, u)
                R3, u3 = crystal.Crystal.g_vect(g1, R2, u2)
                ob('g_vect', close(crys.unit2cart(R1, u1), crys.unit2cart(R3, u3)))
                if not src.symbolic or True:
                    ob('closure', g12.inhalf() in Gset or any(g12.inhalf() == h for h in G))
        return obs
    return fn


QUICK = ['hcp', 'l12', 'rect2', 'honeycomb', 'bccoct', 'diamond', 'tetra-polar-abx2', 'wurtzite-o', 'mono-glide']
THOROUGH = ['sc', 'fcc', 'bcc', 'hcp', 'diamond', 'b2', 'l12', 'nbo', 'bccoct', 'hcpoct', 'square', 'rect2', 'tria',
            'honeycomb', 'rumpled', 'mono', 'afm-square', 'afm-bcc', 'wurtzite-o', 'mono-glide', 'tetra-polar-abx2']


def sections(tier):
    S = run.Section
    secs = []
    names = QUICK if tier == 'quick' else THOROUGH
    budget = 200 if tier == 'quick' else 1800
    for c in names:
        secs.append(S('roundtrip:' + c, roundtrip(c), budget_s=budget, replayer='roundtrip', config=c))
        gstride = 4
        for gsel in range(gstride):
            secs.append(S('actions:%s:%d' % (c, gsel), actions(c, gsel, gstride), budget_s=budget, replayer='actions', config=c))
    # composition: all ordered pairs (thorough) / a seeded 1-in-12 sample of pairs split over 4 workers (quick)
    for c in (['l12', 'hcp', 'honeycomb'] if tier == 'quick' else ['l12', 'hcp', 'honeycomb', 'bccoct', 'nbo', 'rect2', 'diamond', 'rumpled']):
        if tier == 'quick':
            pstride = 12
            for w in range(3):
                psel = (run.seed() + 4 * w) % pstride
                secs.append(S('compose:%s:%d' % (c, psel), composition(c, psel, pstride), budget_s=budget, replayer='compose', config=c))
        else:
            pstride = 8
            for psel in range(pstride):
                secs.append(S('compose:%s:%d' % (c, psel), composition(c, psel, pstride), budget_s=budget, replayer='compose', config=c))
    return secs


def _replayers():
    return {
        'roundtrip': lambda rec: harness.run_laws_concrete(roundtrip(rec['extra']['crystal']), rec),
        'actions': lambda rec: harness.run_laws_concrete(actions(rec['extra']['crystal'], rec['extra']['gsel'], rec['extra']['gstride']), rec),
        'compose': lambda rec: harness.run_laws_concrete(composition(rec['extra']['crystal'], rec['extra']['psel'], rec['extra']['pstride']), rec),
    }


def main():
    import warnings
    warnings.simplefilter('ignore')
    if REPLAY:
        run.replay_main('C23', _replayers())
    C = crystal.Crystal
    chk = run.Check(
        'C23',
        functions=[loader.func_hash(f) for f in (C.pos2cart, C.unit2cart, C.cart2unit, C.cart2pos, C.g_pos, C.g_vect, C.g_cart,
                                                 C.g_direc, C.g_tensor, crystal.incell, crystal.inhalf, crystal.GroupOp.__mul__,
                                                 crystal.GroupOp.inv, crystal.GroupOp.inhalf, PS.g, PS.fromcrys_latt, CS.g)],
        assumptions=[
            'floats modelled as reals; structure constants (lattice, inverse lattice, basis, translations, Cartesian rotations) are '
            'the exact rational values of the floats the library computed; equalities asserted to 1e-8',
            'lattice translations |R_k| <= %d (the 1e-16 inexactness of the float constants bounds how far out an identity can hold to 1e-8); for the Cartesian->unit round trips on lattices whose float inverse is not exact over the rationals |R_k| <= 4 (larger bounds: every available solver times out on the integer search)' % geom.RMAX,
            'unit-cell coordinates in [0, 1-1e-6] (guard band below the cell boundary where incell() legitimately flips); points/directions/tensors boxed |.|<=8',
            'crystals and operations enumerated from a list; quick tier samples ordered pairs of operations for composition (seeded), thorough takes all',
        ],
        explanation='Real conversion and symmetry-action methods executed on z3 terms for symbolic lattice vectors, positions, '
                    'directions, tensors, pair states and cluster sites; every route compared with every other and with an '
                    'independent lattice-coordinate route; composition and inversion checked as maps.',
        bounds='quick: %s; thorough: %s; every operation of each crystal; |R|<=1000' % (QUICK, THOROUGH))
    chk.run(sections(chk.tier))
    chk.finish()


if __name__ == '__main__':
    main()
