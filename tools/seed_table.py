#!/usr/bin/env python3
"""seed_table.py : markdown table of the seeded changes and the LATEST recorded result of each (seeded/RESULTS.tsv)"""
import json, os
root = os.path.join(os.path.dirname(os.path.dirname(os.path.abspath(__file__))), 'seeded')
last = {}
for line in open(os.path.join(root, 'RESULTS.tsv')):
    if line.startswith('#') or not line.strip():
        continue
    f = line.rstrip('\n').split('\t')
    if len(f) >= 4:
        last[f[0]] = f
print('| seed | needs to manifest | latest quick result |')
print('|---|---|---|')
for s in sorted(d for d in os.listdir(root) if os.path.isdir(os.path.join(root, d))):
    if json.load(open(os.path.join(root, s, "meta.json"))).get("retired") and False:
        continue
    m = json.load(open(os.path.join(root, s, 'meta.json')))
    r = last.get(s)
    if m.get('retired'):
        res = 'retired (%s); last result on its base: %s' % ('line rewritten by a fix', r[3] if r else 'n/a')
        print('| %s | %s | %s |' % (s, m.get('needs_to_manifest', '').replace('|', '/'), res))
        continue
    res = 'not run' if r is None else {'exit=1': 'caught (exit 1, %s)' % r[4], 'exit=0': '**missed** (exit 0)', 'exit=3': 'harness error (exit 3)'}.get(r[3], r[3])
    print('| %s | %s | %s |' % (s, m.get('needs_to_manifest', '').replace('|', '/'), res))
