import numpy as np, z3, time
import symx
from symx import ENG, Sym, SymBool, Int, Real
from onsager import crystal, cluster, supercell
crys = crystal.Crystal(np.eye(3), [np.zeros(3)])
sup = supercell.ClusterSupercell(crys, np.array([[2,0,0],[0,2,0],[0,0,1]]))
clexp = cluster.makeclusters(crys, 1.01, 2)
jn = crys.jumpnetwork(0, 1.01)
n = sup.size*sup.Nmobile
print('sites', n)
class NP:
    def __getattr__(self, k): return getattr(np, k)
    def zeros(self, shape, dtype=float):
        if dtype in (float, complex):
            a = np.empty(shape, dtype=object); a.fill(0); return a
        return np.zeros(shape, dtype=dtype)
    def zeros_like(self, a, dtype=None):
        if dtype in (int,): return np.zeros(np.shape(a), dtype=int)
        r = np.empty(np.shape(a), dtype=object); r.fill(0); return r
cluster.np = NP(); supercell.np = NP()
J = cluster.MonteCarloSampler_jit
JitPy = type('JitPy', (object,), {k: d.py_func for k, d in J.class_type.jit_methods.items()})
def run():
    vals = np.array([Real('v%d' % k) for k in range(len(clexp)+1)], dtype=object)
    kra = np.array([Real('kra%d' % k) for k in range(len(jn))], dtype=object)
    occ = np.array([Int('o%d' % k) for k in range(n)], dtype=object)
    for o in occ: ENG.assume((o == 0) | (o == 1))
    MC = cluster.MonteCarloSampler(sup, np.zeros(0), clexp, vals, chem=0, jumpnetwork=jn, KRAvalues=kra)
    par = cluster.MonteCarloSampler_param(MC)
    par['occ'] = np.array(par['occ'], dtype=object); par['jump_Q'] = np.array(par['jump_Q'], dtype=object)
    MJ = JitPy(**par)
    MC.start(occ.copy()); MJ.start(occ.copy())
    obs = [('E', MC.E() == MJ.E())]
    ij, Q, dx = MC.transitions()
    jij, jQ, jdx = MJ.transitions()
    return obs
t = time.time()
try:
    npaths, res = ENG.explore(run, maxpaths=20)
    from collections import Counter
    print(npaths, Counter((r[0], r[1]) for r in res), 'wall %.1f' % (time.time()-t))
except Exception as e:
    import traceback; traceback.print_exc()
