"""C15 tag input maps exactly onto symmetry classes.

VacancyMediated.tags2preene / makeLIMBpreene run with SYMBOLIC (prefactor, energy) data per class; which
member tag of a class carries the data, which classes are supplied, which are supplied twice and which bogus
tags are injected are symbolic choices case-split by the solver.  Per path: the generated parameter set
equals the supplied data entry for entry, unsupplied classes get the defaults / the LIMB value computed
by the harness' formula, and the VERBOSE report lists exactly the missing classes, the duplicated tags and
the unrecognised tags -- also on a second verbose call on the same calculator."""
import itertools
import sys

import numpy as np

from symx import run, loader

REPLAY = run.is_replay()
if REPLAY:
    loader.install_plain()
else:
    loader.install()

from onsager import crystal, OnsagerCalc   # noqa: E402
from symx import core, harness, contracts, shim   # noqa: E402
from symx.core import ENG, Sym   # noqa: E402
from symx.harness import Src   # noqa: E402
sys.path.insert(0, __file__.rsplit('/', 1)[0])
import C14 as hist   # noqa: E402
import inter   # noqa: E402

NAMES = {'vacancy': ('preV', 'eneV'), 'solute': ('preS', 'eneS'), 'solute-vacancy': ('preSV', 'eneSV'), 'omega0': ('preT0', 'eneT0'),
         'omega1': ('preT1', 'eneT1'), 'omega2': ('preT2', 'eneT2')}


def classes(calc):
    return [(t, i) for t in calc.__taglist__ for i in range(len(calc.tags[t]))]


def tagflow(cfg, focus):
    """focus: index (into the class list) of the class whose member choice is symbolic; presence/duplicate flags are symbolic for
    the focus class and its three successors, the remaining classes follow a fixed pattern"""
    def fn(src=None):
        src = src or Src()
        calc = hist.get_calc(cfg)
        name = 'tags:%s:%d' % (cfg, focus)
        sym = src.symbolic
        cl = classes(calc)
        obs = []
        symset = [(focus + d) % len(cl) for d in range(4)]
        user, supplied, dups = {}, {}, {}
        data = {}
        with shim.symbolic_mode():
            for n, (t, i) in enumerate(cl):
                if sym:
                    p = contracts.positive('p%d' % n)
                    e = Sym(core.z3.Real('e%d' % n))
                    src.inputs['y_p%d' % n] = Sym(ENG.logv['p%d' % n][1])
                    src.inputs['e%d' % n] = e
                else:
                    p = float(src.vals.get('y_p%d' % n, 1.0)) ** 2
                    e = float(src.vals.get('e%d' % n, 0.0))
                data[(t, i)] = (p, e)
                members = calc.tags[t][i]
                if n in symset:
                    present = int(src.int('present%d' % n, 0, 1))
                    dup = int(src.int('dup%d' % n, 0, 1)) if len(members) > 1 else 0
                else:
                    present = 1 if (n * 7 + focus) % 3 else 0
                    dup = 0
                m = int(src.int('member%d' % n, 0, len(members) - 1)) if n == focus else (n * 5 + focus) % len(members)
                if present:
                    user[members[m]] = (p, e)
                    supplied[(t, i)] = [members[m]]
                    if dup:
                        m2 = (m + 1) % len(members)
                        # the duplicate carries other data: the FIRST member tag in the calculator's own order wins
                        user[members[m2]] = (p * 2, e + 1)
                        supplied[(t, i)].append(members[m2])
                        dups[(t, i)] = True
            nbad = int(src.int('nbad', 0, 2))
            bad = ['bogus-tag-%d' % k for k in range(nbad)]
            for b in bad:
                user[b] = (1.0, 0.0)
            info = src.info(replayer='tags', extra={'cfg': cfg, 'focus': focus})

            def ob(n_, val):
                obs.append(('%s:%s' % (name, n_), val, dict(info, sig='tags:' + n_.split('@')[0])))
            # a first verbose call with another dictionary must not influence the second one
            other = {calc.tags[t][i][0]: (1.0, 0.0) for (t, i) in cl[::2]}
            calc.tags2preene(other, VERBOSE=True)
            out, missing, duplicates, badlist = calc.tags2preene(user, VERBOSE=True)
            out2 = calc.tags2preene(user)
            same = []
            for k in out:
                same.append(harness.exact_eq(out[k], out2[k]) if sym else bool(np.allclose(np.asarray(out[k], dtype=float), np.asarray(out2[k], dtype=float), rtol=0, atol=0)))
            ob('verbose-same-data', core.And(*same) if sym else all(same))
            # data flow for the supplied classes; defaults / LIMB for the others
            def val_of(t, i):
                tags = supplied.get((t, i))
                if not tags:
                    return None
                first = next(tg for tg in calc.tags[t][i] if tg in tags)     # documented: members are scanned in order
                return user[first]
            conds = []
            eff = {}
            for (t, i) in cl:
                pn, en = NAMES[t]
                v = val_of(t, i)
                if v is not None:
                    conds.append(out[pn][i] == v[0])
                    conds.append(out[en][i] == v[1])
                    eff[(t, i)] = v
                elif t in ('vacancy', 'solute', 'solute-vacancy', 'omega0'):
                    conds.append(out[pn][i] == 1)
                    conds.append(out[en][i] == 0)
                    eff[(t, i)] = (1.0, 0.0)
            # LIMB back-fill (harness formula): TS energy = omega0 energy + mean of the end-point (solute + interaction) energies
            def sv(kind, which):
                s_, v_ = calc.kineticsvWyckoff[kind]
                p, e = eff[('solute', s_)]
                for tindex, kindex in enumerate(calc.thermo2kin):
                    if kindex == kind:
                        p2, e2 = eff[('solute-vacancy', tindex)]
                        p, e = p * p2, e + e2
                return (p, e)[which]
            for t, jts, SPs in (('omega1', calc.om1_jt, calc.om1_SP), ('omega2', calc.om2_jt, calc.om2_SP)):
                pn, en = NAMES[t]
                for j, (jt, SP) in enumerate(zip(jts, SPs)):
                    if val_of(t, j) is not None:
                        continue
                    p0, e0 = eff[('omega0', jt)]
                    conds.append(out[en][j] == e0 + 0.5 * (sv(SP[0], 1) + sv(SP[1], 1)))
                    pp = out[pn][j]
                    conds.append(pp * pp == p0 * p0 * sv(SP[0], 0) * sv(SP[1], 0))
                    conds.append(pp > 0)
            # the parameter set has exactly one entry per class (no phantom entries that no tag can address)
            shapes = [len(np.asarray(out[NAMES[t][k]])) == len(calc.tags[t]) for t in calc.__taglist__ for k in (0, 1)]
            ob('one-entry-per-class', all(shapes))
            ob('data-flow', core.And(*conds) if sym else all(bool(c) if not isinstance(c, (bool, np.bool_)) else c for c in _conc(conds)))
            # verbose report
            exp_missing = {}
            for (t, i) in cl:
                if (t, i) not in supplied:
                    exp_missing.setdefault(t, []).append(calc.tags[t][i])
            ob('missing-exact', {k: [list(x) for x in v] for k, v in missing.items()} == {k: [list(x) for x in v] for k, v in exp_missing.items()})
            exp_dups = sorted(sorted(v) for k, v in supplied.items() if len(v) > 1)
            ob('duplicates-exact', sorted(sorted(d) for d in duplicates) == exp_dups)
            ob('bad-exact', sorted(badlist) == sorted(bad))
            if sym:
                obs.append(('twin:%s' % name, False))
        return obs
    return fn


def _conc(conds):
    out = []
    for c in conds:
        if isinstance(c, (bool, np.bool_)):
            out.append(bool(c))
        else:
            out.append(bool(c))
    return out


def uniqueness(cfg):
    def fn(src=None):
        src = src or Src()
        calc = hist.get_calc(cfg)
        name = 'unique:' + cfg
        info = src.info(replayer='unique', extra={'cfg': cfg})
        alltags = [tg for t in calc.__taglist__ for cls_ in calc.tags[t] for tg in cls_]
        obs = [('%s:tags-unique' % name, len(set(alltags)) == len(alltags), dict(info, sig='unique:tags-unique')),
               ('%s:tagdict-consistent' % name, all(calc.tagdict[tg] == i and calc.tagdicttype[tg] == t for t in calc.__taglist__
                                                    for i, cls_ in enumerate(calc.tags[t]) for tg in cls_), dict(info, sig='unique:tagdict')),
               ('%s:tagdict-complete' % name, set(calc.tagdict) == set(alltags), dict(info, sig='unique:tagdict'))]
        if src.symbolic:
            obs.append(('twin:%s' % name, False))
        return obs
    return fn


def interstitial_tags(cname):
    def fn(src=None):
        src = src or Src()
        crys, calc, jn = inter.get_calc(cname)
        name = 'itags:' + cname
        info = src.info(replayer='itags', extra={'crystal': cname})
        alltags = [tg for k in ('states', 'transitions') for cls_ in calc.tags[k] for tg in cls_]
        obs = [('%s:tags-unique' % name, len(set(alltags)) == len(alltags), dict(info, sig='itags:unique')),
               ('%s:one-class-per-tag' % name, all(calc.tagdict[tg] == i and calc.tagdicttype[tg] == k for k in ('states', 'transitions')
                                                   for i, cls_ in enumerate(calc.tags[k]) for tg in cls_), dict(info, sig='itags:class')),
               ('%s:class-sizes' % name, [len(c) for c in calc.tags['states']] == [len(s) for s in calc.sitelist] and
                [len(c) for c in calc.tags['transitions']] == [len(j) for j in calc.jumpnetwork], dict(info, sig='itags:sizes'))]
        if src.symbolic:
            obs.append(('twin:%s' % name, False))
        return obs
    return fn


def sections(tier):
    S = run.Section
    secs = []
    bud = 175 if tier == 'quick' else 1200
    cfgs = ['square-1', 'rect2-1', 'rumple2d-1'] if tier == 'quick' else ['square-1', 'rect2-1', 'sc-1', 'square-2', 'rumple2d-1']
    for cfg in cfgs:
        ncl = len(classes(hist.get_calc(cfg)))
        step = (3 if cfg != 'rumple2d-1' else 5) if tier == 'quick' else 1
        for focus in range(0, ncl, step):
            secs.append(S('tags:%s:%d' % (cfg, focus), tagflow(cfg, focus), budget_s=bud, replayer='tags', config=cfg, maxpaths=4000, timeout_ms=20000))
        secs.append(S('unique:' + cfg, uniqueness(cfg), budget_s=bud, replayer='unique', config=cfg, maxpaths=2))
    for c in ('X1', 'X2', 'X3'):
        secs.append(S('itags:' + c, interstitial_tags(c), budget_s=bud, replayer='itags', config=c, maxpaths=2))
    return secs


def main():
    import warnings
    warnings.simplefilter('ignore')
    if REPLAY:
        run.replay_main('C15', {'tags': lambda rec: harness.run_laws_concrete(tagflow(rec['extra']['cfg'], rec['extra']['focus']), rec),
                                'unique': lambda rec: harness.run_laws_concrete(uniqueness(rec['extra']['cfg']), rec),
                                'itags': lambda rec: harness.run_laws_concrete(interstitial_tags(rec['extra']['crystal']), rec)})
    V = OnsagerCalc.VacancyMediated
    chk = run.Check(
        'C15',
        functions=[loader.func_hash(f) for f in (V.tags2preene, V.makeLIMBpreene, V.generatetags, OnsagerCalc.Interstitial.generatetags)],
        assumptions=[
            'calculators enumerated; per class a symbolic (prefactor > 0, energy) pair; the member tag carrying the data is symbolic for one '
            'class at a time, presence and duplicate flags symbolic for four classes at a time (the rest follow a fixed pattern), 0-2 bogus tags',
            'LIMB default for unsupplied omega1/omega2 classes checked against the harness formula (energy: omega0 energy + mean of the end-point '
            'solute+interaction energies; prefactor: omega0 prefactor times the geometric mean of the end-point prefactors, stated as pp^2 = ...)',
            'a duplicated class resolves to the first member tag in the calculator\'s own order (as the code documents by scanning in order)',
            'tag uniqueness is a finite comparison decided on the same run',
        ],
        explanation='Real tags2preene/makeLIMBpreene executed on symbolic data with solver-split tag choices; data flow, defaults, LIMB values and '
                    'the verbose report (missing / duplicates / unrecognised) decided per path, including a second verbose call.',
        bounds='square-1, rect2-1, rumple2d-1 (two sites in one Wyckoff set) (quick) + sc-1, square-2 (thorough); interstitial tag dictionaries on X1, X2, X3')
    chk.run(sections(chk.tier))
    chk.finish()


if __name__ == '__main__':
    main()
