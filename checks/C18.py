"""C18 the crystal's symmetry group is a correct group of self-isometries.

For every crystal of the library (2-D/3-D, several species, spins, NOSYM on/off) and EVERY reported operation:
for all lattice translations R (symbolic integers) and all points x (symbolic reals) the operation maps each
atom onto an atom of the same species and spin with the recorded permutation, is an isometry, maps the lattice
onto itself, and its Cartesian and lattice-coordinate actions agree; the reported set is closed under
composition and inversion modulo lattice translations (each product looked up), and GroupOp.__mul__/inv on
SYMBOLIC operations are associative / act as composition."""
import itertools
import sys

import numpy as np

from symx import run, loader

REPLAY = run.is_replay()
if REPLAY:
    loader.install_plain()
else:
    loader.install()

from onsager import crystal   # noqa: E402
from symx import core, harness, shim   # noqa: E402
from symx.core import ENG, Sym   # noqa: E402
from symx.harness import Src   # noqa: E402
from numbers import Number   # noqa: E402
sys.path.insert(0, __file__.rsplit('/', 1)[0])
import geom   # noqa: E402
from geom import close, int_eq   # noqa: E402


def spin_ok(crys, g, ci, gci):
    """image atom carries the same spin up to the operation's action (scalar spins: same magnitude; vectors: rotated, same norm)"""
    if crys.spins is None:
        return True
    s0, s1 = crys.spins[ci[0]][ci[1]], crys.spins[gci[0]][gci[1]]
    if isinstance(s0, Number):
        return bool(np.isclose(abs(s0), abs(s1)))
    return bool(np.isclose(np.linalg.norm(np.dot(g.cartrot, s0)), np.linalg.norm(s1)))


def spins_carried(crys, g):
    """the operation carries the spin texture onto itself up to ONE global phase (a root of unity: time reversal for scalar spins,
    the phases gengroup tries): for every atom, spin(image) == phase * g(spin), g(s) = det * s (scalar) or cartrot . s (vector)"""
    if crys.spins is None:
        return True
    det = 1 if np.linalg.det(np.asarray(g.cartrot, dtype=float)) > 0 else -1
    phases = [np.exp(2j * np.pi * k / 12) for k in range(12)]
    zero = np.zeros(crys.dim, dtype=int)
    for ph in phases:
        ok = True
        for ci in crys.atomindices:
            gci = crys.g_pos(g, zero, ci)[1]
            s0, s1 = crys.spins[ci[0]][ci[1]], crys.spins[gci[0]][gci[1]]
            rs = det * s0 if isinstance(s0, Number) else np.dot(np.asarray(g.cartrot, dtype=float), np.asarray(s0))
            if not np.allclose(ph * np.asarray(rs), np.asarray(s1), atol=1e-7):
                ok = False
                break
        if ok:
            return True
    return False


def soundness(cname, gsel, gstride):
    def fn(src=None):
        src = src or Src()
        crys = geom.get_crystal(cname)
        dim = crys.dim
        G = geom.sorted_ops(crys)
        name = 'sound:%s:%d' % (cname, gsel)
        obs = []
        R = geom.sym_R(src, 'R', dim)
        x = geom.sym_x(src, 'x', dim)
        y = geom.sym_x(src, 'y', dim)
        info = src.info(replayer='sound', extra={'crystal': cname, 'gsel': gsel, 'gstride': gstride})
        for gi in range(gsel, len(G), gstride):
            g = G[gi]

            def ob(n, v):
                obs.append(('%s:g%d:%s' % (name, gi, n), v, dict(info, sig='sound:' + n.split('@')[0])))
            # lattice maps onto itself: integer matrix with integer inverse
            ob('rot-integer', bool(np.all(g.rot == np.round(g.rot))) and abs(abs(round(float(np.linalg.det(g.rot)))) - 1) < 1e-9)
            ginv = g.inv()
            ob('rot-inverse', int_eq(np.dot(ginv.rot, np.dot(g.rot, R)), R))
            # Cartesian and lattice-coordinate actions agree
            ob('cart-vs-lattice', close(crys.g_cart(g, np.dot(crys.lattice, x)), np.dot(crys.lattice, np.dot(g.rot, x) + g.trans)))
            # isometry (polarisation: bilinear form against each basis direction)
            gx0 = crys.g_cart(g, np.zeros(dim))
            gx = crys.g_cart(g, x) - gx0
            for k in range(dim):
                e = np.zeros(dim)
                e[k] = 1.0
                ob('isometry@%d' % k, close([np.dot(gx, crys.g_cart(g, e) - gx0)], [x[k]]))
            # atoms onto atoms of the same species / spin, recorded permutation == geometry, for every lattice translation
            for ci in crys.atomindices:
                gR, gci = crys.g_pos(g, R, ci)
                ob('atom-image@%d.%d' % ci, close(crys.pos2cart(gR, gci), crys.g_cart(g, crys.pos2cart(R, ci))))
                ob('species@%d.%d' % ci, gci[0] == ci[0] and 0 <= gci[1] < len(crys.basis[ci[0]]))
                ob('permutation-matches-geometry@%d.%d' % ci, geom.image_atom(crys, g, ci) == gci)
                ob('spin@%d.%d' % ci, spin_ok(crys, g, ci, gci))
            ob('spins-carried-with-one-phase', spins_carried(crys, g))
            for c, perm in enumerate(g.indexmap):
                ob('permutation-bijective@%d' % c, sorted(perm) == list(range(len(crys.basis[c]))))
            if src.symbolic and gi == gsel:
                obs.append(('twin:%s' % name, close(crys.g_cart(g, x), crys.g_cart(g, x) + 1e-6)))
        return obs
    return fn


def group_axioms(cname):
    """closure, identity, inverses modulo lattice translations (each product/inverse looked up in the reported set)"""
    def fn(src=None):
        src = src or Src()
        crys = geom.get_crystal(cname)
        G = geom.sorted_ops(crys)
        name = 'axioms:' + cname
        obs = []
        info = src.info(replayer='axioms', extra={'crystal': cname})

        def ob(n, v):
            obs.append(('%s:%s' % (name, n), v, dict(info, sig='axioms:' + n.split('@')[0])))

        def member(h):
            h = h.inhalf()
            for k in G:
                if np.all(k.rot == h.rot) and k.indexmap == h.indexmap and np.allclose(crystal.inhalf(k.trans - h.trans), 0, atol=1e-7):
                    return True
            return False
        ident = crystal.GroupOp.ident(crys.basis) if crys.dim == 3 else crystal.GroupOp(np.eye(2, dtype=int), np.zeros(2), np.eye(2),
                                                                                         tuple(tuple(range(len(b))) for b in crys.basis))
        ob('identity', member(ident))
        for i, g in enumerate(G):
            ob('inverse@%d' % i, member(g.inv()))
            bad = [j for j, h in enumerate(G) if not member(g * h)]
            ob('closure@%d' % i, not bad)
        # the group order divides the order of the holohedry of its dimension / is consistent with NOSYM
        if src.symbolic:
            obs.append(('twin:%s' % name, False))
        return obs
    return fn


def symbolic_algebra(dim, nat):
    """GroupOp.__mul__ on fully symbolic operations: associativity and action as composition"""
    def fn(src=None):
        src = src or Src()
        name = 'algebra:%dD:%d' % (dim, nat)

        def mkop(tag):
            rot = src.ints(tag + 'rot', (dim, dim), -1, 1)
            trans = src.reals(tag + 'tr', dim, -2, 2)
            cart = src.reals(tag + 'cr', (dim, dim), -2, 2)
            perm = tuple(src.int('%sp%d' % (tag, k), 0, nat - 1) for k in range(nat))
            if src.symbolic:
                for a, b in itertools.combinations(perm, 2):
                    ENG.assume(a != b)
            return crystal.GroupOp(rot, trans, cart, (perm,))

        def eqop(a, b):
            conds = [harness.exact_eq(a.rot, b.rot), harness.exact_eq(a.trans, b.trans), harness.exact_eq(a.cartrot, b.cartrot),
                     harness.exact_eq(np.array(a.indexmap[0], dtype=object), np.array(b.indexmap[0], dtype=object))]
            return core.And(*conds) if src.symbolic else all(conds)
        with shim.symbolic_mode():
            g1, g2, g3 = mkop('a'), mkop('b'), mkop('c')
            info = src.info(replayer='algebra', extra={'dim': dim, 'nat': nat})
            obs = [('%s:associative' % name, eqop((g1 * g2) * g3, g1 * (g2 * g3)), dict(info, sig='algebra:associative'))]
            u = src.reals('u', dim, -2, 2)
            g12 = g1 * g2
            a1 = np.dot(g12.rot, u) + g12.trans
            a2 = np.dot(g1.rot, np.dot(g2.rot, u) + g2.trans) + g1.trans
            obs.append(('%s:acts-as-composition' % name, harness.exact_eq(a1, a2), dict(info, sig='algebra:composition')))
            c1 = np.dot(g12.cartrot, u)
            c2 = np.dot(g1.cartrot, np.dot(g2.cartrot, u))
            obs.append(('%s:cartesian-composition' % name, harness.exact_eq(c1, c2), dict(info, sig='algebra:composition')))
            k = src.int('k', 0, nat - 1)
            k = int(k)
            obs.append(('%s:permutation-composition' % name, g12.indexmap[0][k] == g1.indexmap[0][int(g2.indexmap[0][k])],
                        dict(info, sig='algebra:permutation')))
            sh = src.ints('sh', dim, -5, 5)
            if src.symbolic:
                obs.append(('%s:add-translation' % name, harness.exact_eq(((g1 + sh) - sh).trans, g1.trans), dict(info, sig='algebra:add')))
                obs.append(('twin:%s' % name, eqop(g1 * g2, g2 * g1)))
        return obs
    return fn


QUICK = ['rutile', 'ab22', 'oblique-nosym', 'hcp', 'l12', 'rumpled', 'honeycomb', 'afm-square', 'afm-bcc', 'fm-hex', 'afm-hex', 'spinvec-sc', 'hcp-nosym', 'fcc-nosym', 'rect2', 'mono', 'nbo',
         'ortho-ab-general', 'tetra-polar-abx2', 'rect-ab-general', 'ortho-abc-mirror', 'tric-abc', 'helix-spin-against', 'helix-spin-with']
THOROUGH = QUICK + ['sc', 'fcc', 'bcc', 'diamond', 'b2', 'bccoct', 'hcpoct', 'square', 'tria', 'wurtzite', 'fcc111', 'hex1']


def constructs(cname):
    """the crystal of the list can be built at all: a constructor that raises on a valid structure (e.g. because a group
    operation carries a malformed index map) is a failure of the property, not of the harness"""
    def fn(src=None):
        src = src or Src()
        try:
            geom.get_crystal(cname)
            ok = True
        except Exception:
            ok = False
        return [('construct:%s:crystal-constructs' % cname, ok, src.info(sig='construct:crystal-constructs', replayer='construct', extra={'crystal': cname}))]
    return fn


def sections(tier):
    S = run.Section
    secs = []
    bud = 170 if tier == 'quick' else 1200
    for c in (QUICK if tier == 'quick' else THOROUGH):
        secs.append(S('construct:' + c, constructs(c), budget_s=bud, replayer='construct', config=c, maxpaths=1))
        try:
            geom.get_crystal(c)
        except Exception:
            continue     # reported by the construct section; nothing else can be stated about it
        stride = 2
        for gsel in range(stride):
            secs.append(S('sound:%s:%d' % (c, gsel), soundness(c, gsel, stride), budget_s=bud, replayer='sound', config=c, maxpaths=8, timeout_ms=20000))
        secs.append(S('axioms:' + c, group_axioms(c), budget_s=bud, replayer='axioms', config=c, maxpaths=4))
    for dim, nat in ((3, 2), (2, 3)) if tier == 'quick' else ((3, 2), (3, 3), (2, 2), (2, 3)):
        secs.append(S('algebra:%dD:%d' % (dim, nat), symbolic_algebra(dim, nat), budget_s=bud, replayer='algebra', config='symbolic ops %dD' % dim,
                      maxpaths=2000, timeout_ms=20000))
    return secs


def main():
    import warnings
    warnings.simplefilter('ignore')
    if REPLAY:
        run.replay_main('C18', {
            'construct': lambda rec: harness.run_laws_concrete(constructs(rec['extra']['crystal']), rec),
            'sound': lambda rec: harness.run_laws_concrete(soundness(rec['extra']['crystal'], rec['extra']['gsel'], rec['extra']['gstride']), rec),
            'axioms': lambda rec: harness.run_laws_concrete(group_axioms(rec['extra']['crystal']), rec),
            'algebra': lambda rec: harness.run_laws_concrete(symbolic_algebra(rec['extra']['dim'], rec['extra']['nat']), rec)})
    C = crystal.Crystal
    chk = run.Check(
        'C18',
        functions=[loader.func_hash(f) for f in (C.gengroup, crystal.maptranslation, C.g_pos, C.g_cart, C.pos2cart, crystal.GroupOp.__mul__,
                                                 crystal.GroupOp.inv, crystal.GroupOp.inhalf, crystal.GroupOp.__add__, crystal.GroupOp.__sub__,
                                                 C.calcmetric, C.center)],
        assumptions=[
            'soundness statement (every REPORTED operation is a symmetry; the set is a group): completeness of the symmetry search is not '
            'part of the property and not checked',
            'crystals enumerated from a library (cubic, hexagonal, monoclinic, 2-D; several species; scalar and vector spins, ferro- and '
            'antiferromagnetic, incl. hexagonal magnets; NOSYM); every operation of each; lattice translations |R_k|<=1000, points boxed |x|<=8; '
            'structure constants are the exact rationals of the library floats; equalities to 1e-8',
            'closure / inverse: each product and inverse (mod lattice translation) is looked up in the reported set (finite table, replayable)',
            'symbolic-operation algebra: rot entries in [-1,1], |trans|,|cartrot| <= 2, permutations of <=3 atoms',
        ],
        explanation='Every reported operation of every library crystal checked with symbolic lattice translations and points (QF_LIRA); group '
                    'axioms by table look-up; GroupOp.__mul__ on symbolic operations (small QF_NIA).',
        bounds='quick: %s; thorough: %s' % (QUICK, THOROUGH))
    chk.run(sections(chk.tier))
    chk.finish()


if __name__ == '__main__':
    main()
