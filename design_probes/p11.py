import numpy as np, z3, time
import symx
from symx import ENG, Sym, SymBool, Int, Real
from onsager import crystal

class SymArray(np.ndarray):
    def __new__(cls, a):
        return np.asarray(a, dtype=object).view(cls)
    def astype(self, dtype, *a, **k):
        if dtype in (int, np.int64, np.int_):
            out = np.empty(self.shape, dtype=object)
            for i in np.ndindex(*self.shape):
                x = self[i]
                if isinstance(x, Sym):
                    out[i] = x if x.isint else Sym(z3.If(x.z >= 0, z3.ToInt(x.z), -z3.ToInt(-x.z)))
                else: out[i] = int(x)
            return out.view(SymArray)
        return np.asarray(self).astype(dtype, *a, **k).view(SymArray) if dtype == object else np.asarray(self).astype(dtype, *a, **k)

def rint_exact(x):
    f = z3.ToInt(x.z); r = x.z - z3.ToReal(f)
    return Sym(z3.If(r < z3.RealVal('1/2'), f, z3.If(r > z3.RealVal('1/2'), f + 1, z3.If(f % 2 == 0, f, f + 1))))
Sym.rint = lambda self: self if self.isint else rint_exact(self)

class NP:
    def __getattr__(self, k): return getattr(np, k)
    def zeros(self, shape, dtype=float):
        return np.zeros(shape, dtype=dtype)
    def round(self, x, *a):
        x = np.asarray(x)
        if x.dtype == object:
            out = np.empty(x.shape, dtype=object)
            for i in np.ndindex(*x.shape): out[i] = x[i].rint() if isinstance(x[i], Sym) else round(x[i])
            return out.view(SymArray)
        return np.round(x, *a)
    def dot(self, a, b):
        r = np.dot(a, b)
        return r.view(SymArray) if isinstance(r, np.ndarray) and r.dtype == object else r
    def floor(self, x):
        x = np.asarray(x)
        if x.dtype == object:
            out = np.empty(x.shape, dtype=object)
            for i in np.ndindex(*x.shape): out[i] = x[i].floor() if isinstance(x[i], Sym) else np.floor(x[i])
            return out.view(SymArray)
        return np.floor(x)
crystal.np = NP()
crys = crystal.Crystal.HCP(1.0, chemistry='Mg')
G = list(crys.G)
tol = 1e-9
def close(a, b):
    r = SymBool(z3.BoolVal(True))
    for x, y in zip(a, b):
        d = x - y
        r = r & (d <= tol) & (d >= -tol)
    return r
def run():
    R = SymArray([Int('R0'), Int('R1'), Int('R2')])
    for x in R: ENG.assume((x <= 1000) & (x >= -1000))
    u = SymArray([Real('u0'), Real('u1'), Real('u2')])
    for x in u: ENG.assume((x >= 0) & (x <= 1 - 1e-6))
    obs = []
    for gi, g in enumerate(G[:24]):
        for ind in crys.atomindices:
            gR, gind = crys.g_pos(g, R, ind)
            lhs = crys.pos2cart(gR, gind)
            rhs = crys.g_cart(g, crys.pos2cart(R, ind))
            obs.append(('gpos%d%s' % (gi, ind), close(lhs, rhs)))
        gR, gu = crystal.Crystal.g_vect(g, R, u)
        lhs = crys.unit2cart(gR, gu); rhs = crys.g_cart(g, crys.unit2cart(R, u))
        obs.append(('gvect%d' % gi, close(lhs, rhs)))
        inc = SymBool(z3.And(*[z3.And((x >= -1e-8).z, (x < 1).z) for x in gu]))
        obs.append(('gvect-incell%d' % gi, inc))
    return obs
t = time.time()
npaths, res = ENG.explore(run, maxpaths=50)
from collections import Counter
print(npaths, Counter(r[0] for r in res), [r[1] for r in res if r[0] != 'ok'][:5], 'queries', ENG.nq, 'solver %.1f' % ENG.tq, 'wall %.1f' % (time.time()-t))
