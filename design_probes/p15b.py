import numpy as np, z3, time
import symx
from symx import ENG, Sym, SymBool, Int, Real
from onsager import PowerExpansion as PE
T3D = PE.Taylor3D; T3D()
class NP:
    def __getattr__(self, k): return getattr(np, k)
    def zeros(self, shape, dtype=float):
        if dtype in (float, complex):
            a = np.empty(shape, dtype=object); a.fill(0); return a
        return np.zeros(shape, dtype=dtype)
    def allclose(self, a, b, rtol=1e-5, atol=1e-8):
        a = np.asarray(a, dtype=object)
        conds = []
        for x in a.flat:
            d = x - b
            if isinstance(d, Sym): conds.append((abs(d) <= atol).z)
            elif not abs(d) <= atol: return False
        return SymBool(z3.And(*conds)) if conds else True
PE.np = NP()
def symcoeff(tag, n, l, shape=()):
    a = np.empty((T3D.powlrange[l],) + shape, dtype=object)
    for idx in np.ndindex(*a.shape):
        a[idx] = Real(tag + '_' + '_'.join(map(str, idx))); ENG.assume((a[idx] <= 1) & (a[idx] >= -1))
    return (n, l, a)
raw = [(1,2,2),(2,3,6),(1,4,8),(4,4,7),(2,6,9),(6,6,7),(3,4,12),(-1,2,2),(2,-3,6),(1,4,-8),(-4,4,7),(2,-6,9),(6,-6,7),(-3,4,12),(1,-2,-2),(8,9,12),(2,10,11),(-2,10,11),(2,-10,11),(6,10,15),(-6,10,15),(1,12,12),(4,13,16),(-4,13,16),(3,16,24),(-3,16,24),(8,11,16),(-8,11,16),(4,8,19),(-4,8,19),(7,14,22),(-7,14,22),(12,15,16),(-12,15,16),(9,12,20)]
pts = [np.array(p, dtype=float)/np.sqrt(float(np.dot(p,p))) for p in raw]
def evalsum(T, u):
    d = T(u); out = {}
    for (n, l), x in d.items(): out[n] = out.get(n, 0) + x
    return out
def run():
    rng = np.random.RandomState(3)
    a = T3D([symcoeff('a2', 2, 2), (0, 2, (np.round(rng.uniform(-1,1,T3D.powlrange[2])*16)/16).astype(object)), (2, 1, (np.round(rng.uniform(-1,1,T3D.powlrange[1])*16)/16).astype(object))])
    r = a.copy(); r.reduce()
    s = r.copy(); s.separate()
    obs = []
    for k, u in enumerate(pts[:12]):
        ea, er, es = evalsum(a, u), evalsum(r, u), evalsum(s, u)
        for n in ea:
            for nm, e in (('red', er), ('sep', es)):
                d = e.get(n, 0) - ea[n]
                obs.append(('%s u%d n%d' % (nm, k, n), (d <= 1e-9) & (d >= -1e-9)))
    return obs
t = time.time()
npaths, res = ENG.explore(run, maxpaths=300)
from collections import Counter
print(npaths, Counter(r[0] for r in res), 'queries', ENG.nq, 'solver %.1f' % ENG.tq, 'wall %.1f' % (time.time()-t))
print([r[1] for r in res if r[0] != 'ok'][:5])
