"""Shared harness for the cluster-expansion / Monte Carlo checks (C32, C33, C34, C35).

Structure (crystal, supercell, cluster sets, jump network) is enumerated from a list; the
occupation of every site is a symbolic 0/1 integer that the solver case-splits (one path per
occupation); ALL cluster / KRA / transition-state values are symbolic reals, so every energy
is a linear form in them and evaluators are compared as linear forms."""
import itertools

import numpy as np

from onsager import crystal, cluster, supercell

from symx import core, shim
from symx.core import ENG, Sym
from symx.shim import SymArray


def _sc():
    return crystal.Crystal(np.eye(3), [np.zeros(3)])


def _fcc():
    return crystal.Crystal.FCC(1.0)


def _b2():
    return crystal.Crystal(np.eye(3), [[np.zeros(3)], [np.array([0.5, 0.5, 0.5])]], chemistry=['A', 'B'])


def _hcp():
    return crystal.Crystal.HCP(1.0)


def _b2t():
    # tetragonal B2-like cell, c = 1.2: with cutoffs 1.01 no cluster and no jump extends along z
    return crystal.Crystal(np.diag([1., 1., 1.2]), [[np.zeros(3)], [np.array([0.5, 0.5, 0.5])]], chemistry=['A', 'B'])


CONFIGS = {
    # tetragonal B2-like cell, 2x2x1: vacancy + spectators + order-3 clusters (TS clusters with spectator sites), no cluster as wide as the supercell
    'b2t-221v-o3': (_b2t, (2, 2, 1), (0,), 0, 1.01, 3, 1.01, 1),
    'b2t-221-o3': (_b2t, (2, 2, 1), (0,), None, 1.01, 3, 1.01, 1),
    # three cells along x (a jump and its reverse see different spectator neighbourhoods); mobile sites other than three fixed to occupied
    'b2t-321v-o3': (_b2t, (3, 2, 1), (0,), 0, 1.01, 3, 1.01, 1, {'free_mobile': (1, 2, 3)}),
    # name: (crystal ctor, superlatt diag, spectator chems, vacancy index or None, cluster cutoff, max order, jump cutoff or None, mobile chem)
    'sc221': (_sc, (2, 2, 1), (), None, 1.01, 2, 1.01, 0),
    'sc222': (_sc, (2, 2, 2), (), None, 1.01, 2, 1.01, 0),
    'sc221-o3': (_sc, (2, 2, 1), (), None, 1.5, 3, 1.01, 0),
    'sc122v': (_sc, (1, 2, 2), (), 0, 1.01, 2, 1.01, 0),
    'sc221v': (_sc, (2, 2, 1), (), 1, 1.01, 2, 1.01, 0),
    'fcc122v': (_fcc, (1, 2, 2), (), 0, 0.8, 2, 0.8, 0),
    'fcc211': (_fcc, (2, 1, 1), (), None, 0.8, 3, 0.8, 0),
    'b2-211': (_b2, (2, 1, 1), (0,), None, 1.01, 2, 1.01, 1),
    'b2-113v': (_b2, (1, 1, 3), (0,), 0, 1.01, 2, 1.01, 1),
    'b2-211v': (_b2, (2, 1, 1), (0,), 1, 1.01, 2, 1.01, 1),
    # one cell thick along directions in which vacancy clusters extend: cluster sites alias the vacancy itself
    'b2-113v-o3': (_b2, (1, 1, 3), (0,), 0, 1.01, 3, 1.01, 1, {'aliasing': True}),
    'b2-211-o3': (_b2, (2, 1, 1), (0,), None, 1.01, 3, 1.01, 1),
    'b2-221v': (_b2, (2, 2, 1), (0,), 0, 1.01, 2, 1.01, 1),
    'hcp211': (_hcp, (2, 1, 1), (), None, 1.01, 2, 1.01, 0),
    'hcp221': (_hcp, (2, 2, 1), (), None, 1.01, 2, 1.01, 0),
}

_BUILT = {}


def build(name):
    if name in _BUILT:
        return _BUILT[name]
    ctor, diag, spect, vac, ccut, order, jcut, chem = CONFIGS[name][:8]
    opts = CONFIGS[name][8] if len(CONFIGS[name]) > 8 else {}
    crys = ctor()
    sup = supercell.ClusterSupercell(crys, np.diag(diag), spectator=spect)
    clexp = cluster.makeclusters(crys, ccut, order)
    clexp = sorted_clusters(clexp)
    jn = crys.jumpnetwork(chem, jcut) if jcut else []
    TScl = sorted_clusters(cluster.makeTSclusters(crys, chem, jn, clexp)) if jn else []
    vclexp = []
    if vac is not None:
        sup.addvacancy(vac)
        vclexp = sorted_clusters(cluster.makeVacancyClusters(crys, chem, clexp))
        # a sampler with a vacancy only uses VACANCY transition-state clusters (built from the vacancy clusters)
        TScl = sorted_clusters(cluster.makeTSclusters(crys, chem, jn, vclexp)) if jn else []
    d = dict(name=name, crys=crys, sup=sup, clexp=clexp, vclexp=vclexp, jn=jn, TScl=TScl, chem=chem, vacancy=vac,
             nmob=sup.size * sup.Nmobile, nspec=sup.size * sup.Nspec, opts=opts)
    _BUILT[name] = d
    return d


def cluster_key(cl):
    return (cl.__dict__['__transition__'], cl.__dict__['__vacancy__'], tuple((cs.ci, tuple(int(x) for x in cs.R)) for cs in cl.sites))


def sorted_clusters(clexp):
    """deterministic order of orbits and of clusters inside an orbit (sets have no order)"""
    out = [sorted(orbit, key=cluster_key) for orbit in clexp]
    out.sort(key=lambda o: (len(o[0].sites), cluster_key(o[0])))
    return out


class Vals:
    """symbolic (or concrete) cluster / KRA / TS values"""

    def __init__(self, cfg, src, with_vac_clusters=True):
        self.clusters = cfg['clexp'] + (cfg['vclexp'] if with_vac_clusters else [])
        ncl = len(self.clusters)
        self.vals = src.reals('val', ncl + 1, -8, 8)
        self.kra = src.reals('kra', len(cfg['jn']), -8, 8) if cfg['jn'] else None
        self.tsv = src.reals('ts', len(cfg['TScl']), -8, 8) if cfg['TScl'] else None


def occupations(cfg, src):
    """mobile and spectator occupation: symbolic 0/1 per site, case-split by the solver into concrete arrays"""
    nm, ns, vac = cfg['nmob'], cfg['nspec'], cfg['vacancy']
    mocc = np.zeros(nm, dtype=int)
    for k in range(nm):
        if vac is not None and k == vac:
            mocc[k] = -1
            continue
        free = cfg.get('opts', {}).get('free_mobile')
        if free is not None and k not in free:
            mocc[k] = 1
            continue
        o = src.int('m%d' % k, 0, 1)
        mocc[k] = int(o)
    socc = np.zeros(ns, dtype=int)
    for k in range(ns):
        o = src.int('s%d' % k, 0, 1)
        socc[k] = int(o)
    return mocc, socc


def brute_force_counts(cfg, clusters, mocc, socc):
    """independent definition: number of (cluster, translation) instances with every site occupied"""
    sup = cfg['sup']
    counts = np.zeros(len(clusters) + 1, dtype=int)
    counts[-1] = sup.size
    vac = sup.vacancy
    if vac is not None:
        ci_vac, R_vac = sup.ciR(vac)
    for m, orbit in enumerate(clusters):
        for cl in orbit:
            if cl.__dict__['__vacancy__']:
                if vac is None or cl.sites[0].ci != ci_vac:
                    continue
                Rs = [R_vac]
                sites = cl.sites[1:]
            else:
                Rs = sup.Rveclist
                sites = cl.sites
            for R in Rs:
                on = True
                for cs in sites:
                    n, mob = sup.index(R + cs.R, cs.ci)
                    if (mocc[n] if mob else socc[n]) != 1:
                        on = False
                        break
                if on:
                    counts[m] += 1
    return counts


def make_sampler(cfg, V, socc, jumps=False, ts=False):
    sup = cfg['sup']
    with shim.symbolic_mode():
        if jumps:
            return cluster.MonteCarloSampler(sup, socc, V.clusters, V.vals, chem=cfg['chem'], jumpnetwork=cfg['jn'],
                                             KRAvalues=V.kra, TSclusters=cfg['TScl'] if ts else (),
                                             TSvalues=V.tsv if ts else ())
        return cluster.MonteCarloSampler(sup, socc, V.clusters, V.vals)


def lin_eq(a, b, symbolic, tol=1e-9):
    """two energies agree: exactly as linear forms (symbolic) / to tol (replay)"""
    if symbolic:
        r = (a == b)
        return r if isinstance(r, core.SymBool) else bool(r)
    return abs(float(a) - float(b)) <= tol * max(1.0, abs(float(a)), abs(float(b)))
