"""C32 all cluster-expansion evaluators agree on every configuration.

Occupations (mobile and spectator) are symbolic 0/1 integers case-split by the solver; ALL cluster
values are symbolic reals.  On each occupation path the cluster counter, the index-matrix expansion,
the interaction-list evaluator and the Monte Carlo sampler must give the same energy as a brute-force
sum over clusters, as linear forms in the values (decided by z3 for all values)."""
import sys

import numpy as np

from symx import run, loader

REPLAY = run.is_replay()
if REPLAY:
    loader.install_plain()
else:
    loader.install()

from onsager import cluster, supercell   # noqa: E402
from symx import core, harness, shim   # noqa: E402
from symx.harness import Src   # noqa: E402
sys.path.insert(0, __file__.rsplit('/', 1)[0])
import mc   # noqa: E402


def agree(cname):
    def fn(src=None):
        src = src or Src()
        cfg = mc.build(cname)
        sup = cfg['sup']
        name = 'agree:' + cname
        V = mc.Vals(cfg, src)
        mocc, socc = mc.occupations(cfg, src)
        sym = src.symbolic
        vals = V.vals
        obs = []
        info = src.info(replayer='agree', extra={'cfg': cname})

        def ob(n, v):
            obs.append(('%s:%s' % (name, n), v, dict(info, sig='agree:' + n)))
        with shim.symbolic_mode():
            ref_counts = mc.brute_force_counts(cfg, V.clusters, mocc, socc)
            Eref = sum(vals[m] * int(c) for m, c in enumerate(ref_counts))
            # 1. cluster counter
            cnt = sup.evalcluster(mocc, socc, V.clusters)
            ob('evalcluster-counts', bool(np.all(np.asarray(cnt) == ref_counts)))
            ob('evalcluster-energy', mc.lin_eq(np.dot(vals, cnt), Eref, sym))
            # 2. index-matrix expansion
            mats = sup.expandcluster_matrices(socc, V.clusters)
            cnt2 = np.zeros(len(V.clusters) + 1, dtype=int)
            cnt2[-1] = sup.size
            for m, cllist in enumerate(mats):
                for clmat in cllist:
                    if clmat.ndim < 2 or clmat.shape[1] == 0:
                        cnt2[m] += clmat.shape[0]
                    else:
                        cnt2[m] += sum(1 for row in clmat if all(mocc[k] == 1 for k in row))
            ob('matrices-counts', bool(np.all(cnt2 == ref_counts)))
            # 3. interaction-list evaluator
            siteinteract, interact = sup.clusterevaluator(socc, V.clusters, vals)
            ninter = len(interact) - 1
            unocc = np.zeros(ninter, dtype=int)
            for site, lst in enumerate(siteinteract):
                if mocc[site] == 0:
                    for m in lst:
                        unocc[m] += 1
            Einter = interact[-1]
            for m in range(ninter):
                if unocc[m] == 0:
                    Einter = Einter + interact[m]
            ob('interaction-list-energy', mc.lin_eq(Einter, Eref, sym))
            # 4. Monte Carlo sampler
            MC = mc.make_sampler(cfg, V, socc)
            MC.start(mocc.copy())
            ob('sampler-energy', mc.lin_eq(MC.E(), Eref, sym))
            # ... and still after the sampler has MOVED to a neighbouring occupation (one site filled, one emptied): brute force on the
            # new occupation (the counters that start() leaves behind are only exercised by an update)
            for kind, pick in (('fill', 0), ('empty', 1)):
                sites = [i for i in range(len(mocc)) if mocc[i] == pick]
                if not sites:
                    continue
                i = sites[0]
                new = mocc.copy()
                new[i] = 1 - pick
                if pick == 0:
                    MC.update((i,), ())
                else:
                    MC.update((), (i,))
                cnt3 = mc.brute_force_counts(cfg, V.clusters, new, socc)
                ob('sampler-energy-after-%s' % kind, mc.lin_eq(MC.E(), sum(vals[m] * int(c) for m, c in enumerate(cnt3)), sym))
                if pick == 0:
                    MC.update((), (i,))
                else:
                    MC.update((i,), ())
            if sym:
                obs.append(('twin:%s:energy-shifted' % name, mc.lin_eq(MC.E(), Eref + 1e-6, True)))
        return obs
    return fn


QUICK = ['sc221', 'sc122v', 'fcc122v', 'b2-211', 'sc221-o3', 'b2-113v']
THOROUGH = QUICK + ['sc222', 'sc221v', 'fcc211', 'hcp211', 'hcp221']


def sections(tier):
    S = run.Section
    return [S('agree:' + c, agree(c), budget_s=170 if tier == 'quick' else 1200, replayer='agree', config=c, maxpaths=5000,
              timeout_ms=10000) for c in (QUICK if tier == 'quick' else THOROUGH)]


def main():
    import warnings
    warnings.simplefilter('ignore')
    if REPLAY:
        run.replay_main('C32', {'agree': lambda rec: harness.run_laws_concrete(agree(rec['extra']['cfg']), rec)})
    CS = supercell.ClusterSupercell
    chk = run.Check(
        'C32',
        functions=[loader.func_hash(f) for f in (CS.evalcluster, CS.expandcluster_matrices, CS.clusterevaluator, CS.index, CS.ciR,
                                                 cluster.MonteCarloSampler.__init__, cluster.MonteCarloSampler.start,
                                                 cluster.MonteCarloSampler.E)],
        assumptions=[
            'supercells, spectator choice, vacancy position and cluster sets are enumerated from a list (thin supercells in which '
            'cluster sites wrap onto each other and onto the vacancy are included); occupations are solver-driven case splits (2^n paths)',
            'all cluster values symbolic reals in [-8,8]: energies compared exactly as linear forms',
            'the brute-force reference uses the supercell\'s own site indexing (index/ciR)',
        ],
        explanation='evalcluster, expandcluster_matrices, clusterevaluator and MonteCarloSampler executed on every occupation path '
                    'with symbolic cluster values; the four energies and the brute-force sum are equal as linear forms (z3).',
        bounds='quick: %s; thorough: %s (4-8 mobile sites, with/without spectator sublattice and vacancy, cluster order <=3)' % (QUICK, THOROUGH))
    chk.run(sections(chk.tier))
    chk.finish()


if __name__ == '__main__':
    main()
