"""Shared geometry harness pieces for C18 / C20 / C23: crystal library and obligation builders.
Imported after symx.loader.install()/install_plain()."""
import numpy as np

from onsager import crystal

from symx import core, harness
from symx.core import ENG

RMAX = 1000
TOL = 1e-8


def _c(lattice, basis, **kw):
    return crystal.Crystal(np.array(lattice, dtype=float), basis, **kw)


def crystal_library():
    """name -> constructor (lazy: building a crystal runs the symmetry search)"""
    a = np.array
    L = {}
    L['sc'] = lambda: _c(np.eye(3), [a([0., 0., 0.])])
    L['fcc'] = lambda: crystal.Crystal.FCC(1.0)
    L['bcc'] = lambda: crystal.Crystal.BCC(1.0)
    L['hcp'] = lambda: crystal.Crystal.HCP(1.0)
    L['diamond'] = lambda: _c(0.5 * a([[0., 1., 1.], [1., 0., 1.], [1., 1., 0.]]), [a([0., 0., 0.]), a([0.25, 0.25, 0.25])])
    L['b2'] = lambda: _c(np.eye(3), [[a([0., 0., 0.])], [a([0.5, 0.5, 0.5])]])
    L['l12'] = lambda: _c(np.eye(3), [[a([0., 0., 0.])], [a([0.5, 0.5, 0.]), a([0.5, 0., 0.5]), a([0., 0.5, 0.5])]])
    L['nbo'] = lambda: _c(np.eye(3), [[a([0., 0.5, 0.5]), a([0.5, 0., 0.5]), a([0.5, 0.5, 0.])],
                                      [a([0.5, 0., 0.]), a([0., 0.5, 0.]), a([0., 0., 0.5])]])
    L['bccoct'] = lambda: _c(np.eye(3), [[a([0., 0., 0.]), a([0.5, 0.5, 0.5])],
                                         [a([0.5, 0., 0.]), a([0., 0.5, 0.]), a([0., 0., 0.5]),
                                          a([0., 0.5, 0.5]), a([0.5, 0., 0.5]), a([0.5, 0.5, 0.])]])
    L['hcpoct'] = lambda: crystal.Crystal.HCP(1.0).addbasis([a([0., 0., 0.]), a([0., 0., 0.5])])
    L['square'] = lambda: _c(np.eye(2), [a([0., 0.])])
    L['rect2'] = lambda: _c(a([[1., 0.], [0., 1.25]]), [[a([0., 0.]), a([0.5, 0.5])], [a([0.25, 0.5])]], noreduce=True)
    L['tria'] = lambda: _c(a([[1., 0.5], [0., np.sqrt(0.75)]]), [a([0., 0.])])
    L['honeycomb'] = lambda: _c(a([[1., 0.5], [0., np.sqrt(0.75)]]), [a([1. / 3, 1. / 3]), a([2. / 3, 2. / 3])])
    L['rumpled'] = lambda: _c(a([[1., 0.5, 0.], [0., np.sqrt(0.75), 0.], [0., 0., 1.7]]),
                              [a([0., 0., 0.]), a([1. / 3, 1. / 3, 0.1]), a([2. / 3, 2. / 3, -0.1])])
    L['mono'] = lambda: _c(a([[1., 0., 0.25], [0., 1.25, 0.], [0., 0., 1.]]),
                           [[a([0., 0., 0.])], [a([0.125, 0.25, 0.375]), a([0.875, 0.75, 0.625])]], noreduce=True)
    L['afm-square'] = lambda: _c(a([[1., 1.], [-1., 1.]]), [a([0., 0.]), a([0.5, 0.5])], spins=[1, -1])
    L['afm-bcc'] = lambda: _c(np.eye(3), [a([0., 0., 0.]), a([0.5, 0.5, 0.5])], spins=[1, -1])
    L['spinvec-sc'] = lambda: _c(np.eye(3), [a([0., 0., 0.])], spins=[a([0., 0., 1.])])
    L['hex1'] = lambda: _c(a([[1., 0.5, 0.], [0., np.sqrt(0.75), 0.], [0., 0., 1.25]]), [a([0., 0., 0.])])
    L['rect1'] = lambda: _c(a([[1., 0.], [0., 1.5]]), [a([0., 0.])])
    L['ortho1'] = lambda: _c(a([[1., 0., 0.], [0., 1.25, 0.], [0., 0., 1.5]]), [a([0., 0., 0.])])
    L['wurtzite'] = lambda: _c(a([[0.5, 0.5, 0.], [-np.sqrt(0.75), np.sqrt(0.75), 0.], [0., 0., np.sqrt(8. / 3.)]]),
                               [[a([1. / 3, 2. / 3, 0.]), a([2. / 3, 1. / 3, 0.5])], [a([1. / 3, 2. / 3, 0.375]), a([2. / 3, 1. / 3, 0.875])]])
    # FCC in a rotated setting: x=[1-10], y=[11-2], z=[111] (symmetry axes with |z|>=0.75 and non-zero x component)
    L['fcc111'] = lambda: _c(np.dot(a([[1 / np.sqrt(2), -1 / np.sqrt(2), 0.], [1 / np.sqrt(6), 1 / np.sqrt(6), -2 / np.sqrt(6)],
                                        [1 / np.sqrt(3), 1 / np.sqrt(3), 1 / np.sqrt(3)]]),
                                     0.5 * a([[0., 1., 1.], [1., 0., 1.], [1., 1., 0.]])), [a([0., 0., 0.])])
    L['fm-hex'] = lambda: _c(a([[1., 0.5, 0.], [0., np.sqrt(0.75), 0.], [0., 0., 1.25]]), [a([0., 0., 0.])], spins=[1])
    L['afm-hex'] = lambda: _c(a([[1., 0.5, 0.], [0., np.sqrt(0.75), 0.], [0., 0., 2.5]]), [a([0., 0., 0.]), a([0., 0., 0.5])], spins=[1, -1])
    L['bct'] = lambda: _c(a([[-0.5, 0.5, 0.5], [0.5, -0.5, 0.5], [0.8, 0.8, -0.8]]).T, [a([0., 0., 0.])])
    L['tricl'] = lambda: _c(a([[1., 0.3, 0.2], [0., 1.1, 0.4], [0., 0., 0.9]]), [a([0., 0., 0.])])
    L['rhomb'] = lambda: _c(a([[1., 0.3, 0.3], [0.3, 1., 0.3], [0.3, 0.3, 1.]]), [a([0., 0., 0.])])
    L['oblique'] = lambda: _c(a([[1., 0.4], [0., 0.9]]), [a([0., 0.])])
    L['tetra-ab'] = lambda: _c(a([[1., 0., 0.], [0., 1., 0.], [0., 0., 1.5]]), [[a([0., 0., 0.])], [a([0.5, 0.5, 0.8])]])
    L['skew2'] = lambda: _c(a([[1., 2.25], [0., 1.]]), [a([0., 0.])], noreduce=True)
    L['fccint'] = lambda: _c(0.5 * a([[0., 1., 1.], [1., 0., 1.], [1., 1., 0.]]),
                             [[a([0., 0., 0.])], [a([0.5, 0.5, 0.5]), a([0.25, 0.25, 0.25]), a([0.75, 0.75, 0.75])]])
    # obstructing species beside the far half of a jump (further than the cutoff from the start site)
    L['rect-ab'] = lambda: _c(a([[1., 0.], [0., 1.6]]), [[a([0., 0.])], [a([0.9, 0.5])]], noreduce=True)
    L['ortho-ab'] = lambda: _c(np.diag([1., 3., 3.]), [[a([0., 0., 0.])], [a([0.5, 0.95 / 3., 0.])]])
    L['tric-abc'] = lambda: _c(a([[0.84, 0.1, 0.], [0., 1.6, 0.1], [0., 0., 2.5]]),
                               [[a([0., 0., 0.]), a([0.178571428571, 0.5, -0.02])], [a([-0.2964285714, 0.53375, -0.02135])], [a([0.4, 0.6, 0.5])]],
                               noreduce=True)
    # chiral orthorhombic crystal: point group 222 (three 2-fold axes, no mirror, no inversion); mobile site (chem 1) at the origin
    L['p222'] = lambda: _c(np.diag([1., 1.25, 1.5]), [[a([0.125, 0.25, 0.375]), a([0.875, 0.75, 0.375]), a([0.875, 0.25, 0.625]), a([0.125, 0.75, 0.625])],
                                                       [a([0., 0., 0.])]], noreduce=True)
    L['oblique-c1'] = lambda: _c(a([[1., 0.25], [0., 1.5]]), [[a([0.25, 0.125]), a([0.625, 0.5])], [a([0.1, 0.7])]], noreduce=True)
    L['tric-c1'] = lambda: _c(a([[1., 0.3, 0.2], [0., 1.1, 0.4], [0., 0., 0.9]]), [[a([0.1, 0.2, 0.3])], [a([0.6, 0.1, 0.55])]], noreduce=True)
    # HCP with octahedral and tetrahedral interstitial sites (chem 1)
    def _hcpot():
        h = crystal.Crystal.HCP(1.0)
        return h.addbasis(h.Wyckoffpos(a([0., 0., 0.5])) + h.Wyckoffpos(a([1. / 3., 2. / 3., 0.625])))
    L['hcpot'] = _hcpot
    # two mobile sites far apart in cell coordinates (0.1 / 0.9): jumps shorter than the cutoff need lattice translations |n| = 2
    L['dimer-chain'] = lambda: _c(np.diag([1., 1.5, 1.9]), [[a([0.1, 0., 0.]), a([0.9, 0., 0.])], [a([0.5, 0.4, 0.3])]], noreduce=True)
    L['oblique-far2'] = lambda: _c(a([[1., 0.3], [0., 1.4]]), [[a([0.05, 0.1]), a([0.95, 0.85])], [a([0.5, 0.45])]], noreduce=True)
    # two (three) species with ONE site each, the later ones at positions not invariant under the lattice point group
    L['ortho-ab-general'] = lambda: _c(np.diag([1., 1.25, 1.5]), [[a([0., 0., 0.])], [a([0.13, 0.21, 0.34])]], noreduce=True)
    L['tetra-polar-abx2'] = lambda: _c(np.diag([1., 1., 1.25]), [[a([0., 0., 0.])], [a([0.5, 0.5, 0.55])], [a([0.5, 0., 0.5]), a([0., 0.5, 0.5])]],
                                       noreduce=True)
    L['rect-ab-general'] = lambda: _c(a([[1., 0.], [0., 1.25]]), [[a([0., 0.])], [a([0.2, 0.35])]], noreduce=True)
    L['ortho-abc-mirror'] = lambda: _c(np.diag([1., 1.25, 1.5]), [[a([0., 0., 0.])], [a([0.5, 0.5, 0.3])], [a([0.25, 0., 0.])]], noreduce=True)
    # omega-Ti like: two equivalent sites first, the inequivalent one LAST
    L['omega'] = lambda: _c(a([[1., 0.5, 0.], [0., np.sqrt(0.75), 0.], [0., 0., 0.612]]),
                            [a([1. / 3, 1. / 3, 0.5]), a([2. / 3, 2. / 3, 0.5]), a([0., 0., 0.])])
    # tetragonal cell, four atoms on a 4_1 positional helix, NON-COLLINEAR vector spins winding against / with the helix
    def _helix(w):
        def Rz(k):
            c_, s_ = np.cos(0.5 * np.pi * k), np.sin(0.5 * np.pi * k)
            return a([[c_, -s_, 0.], [s_, c_, 0.], [0., 0., 1.]])
        pos = [a([0.25, 0., 0.]), a([0., 0.25, 0.25]), a([-0.25, 0., 0.5]), a([0., -0.25, 0.75])]
        s0 = a([1., 0.3, 0.5])
        return _c(np.diag([1., 1., 1.6]), [pos], spins=[[np.dot(Rz(w * k), s0) for k in range(4)]])
    L['helix-spin-against'] = lambda: _helix(-1)
    L['helix-spin-with'] = lambda: _helix(1)
    # length scales typical of real data (Angstrom): the Brillouin-zone construction must not depend on the unit of length
    L['fcc-a4'] = lambda: crystal.Crystal.FCC(4.0)
    L['hcp-a3'] = lambda: crystal.Crystal.HCP(3.0)
    L['sc-a5'] = lambda: _c(5.0 * np.eye(3), [a([0., 0., 0.])])
    L['tria-a4'] = lambda: _c(4.0 * a([[1., 0.5], [0., np.sqrt(0.75)]]), [a([0., 0.])])
    L['bct-a10'] = lambda: _c(10. * a([[-0.5, 0.5, 0.5], [0.5, -0.5, 0.5], [0.8, 0.8, -0.8]]).T, [a([0., 0., 0.])])
    # strongly sheared cell (entries in 1/8): folding a mesh point into the zone takes three sweeps over the zone vectors
    L['sheared3'] = lambda: _c(a([[-0.75, 0.75, -0.375], [1., 1., 0.375], [0., 0., -1.5]]), [a([0., 0., 0.])])
    # rhombohedral cell with alpha = 50 degrees: 6x6x6 mesh points lie on zone faces to roundoff
    def _rh50():
        al = np.deg2rad(50.)
        c_ = np.cos(al)
        y_ = (c_ - c_ * c_) / np.sin(al)
        return _c(a([[1., 0., 0.], [c_, np.sin(al), 0.], [c_, y_, np.sqrt(1 - c_ * c_ - y_ * y_)]]).T, [a([0., 0., 0.])])
    L['rhomb50'] = _rh50
    # operations with IN-PLANE translation parts on a lattice matrix that is not symmetric: wurtzite with a cation on the cell
    # origin (screw / glide translations like (1/3,-1/3,1/2)) and a monoclinic cell (gamma = 105 degrees) with an a-glide
    L['wurtzite-o'] = lambda: _c(a([[0.5, 0.5, 0.], [-np.sqrt(0.75), np.sqrt(0.75), 0.], [0., 0., 1.62]]),
                                 [[a([0., 0., 0.]), a([1. / 3, -1. / 3, 0.5])], [a([0., 0., 0.38]), a([1. / 3, -1. / 3, 0.88])]], noreduce=True)
    def _monoglide():
        g_ = np.deg2rad(105.)
        latt = a([[1., 1.3 * np.cos(g_), 0.], [0., 1.3 * np.sin(g_), 0.], [0., 0., 1.7]])
        x0, x1 = a([0.125, 0.25, 0.1875]), a([0.375, 0.625, 0.0625])
        gl = lambda x: a([x[0] + 0.5, x[1], -x[2]])   # noqa: E731
        return _c(latt, [[x0, gl(x0)], [x1, gl(x1)]], noreduce=True)
    L['mono-glide'] = _monoglide
    # cells kept as supplied (noreduce): strongly sheared, so that zone faces come from reciprocal vectors with coefficients 2..4
    L['skew16'] = lambda: _c(a([[1., 1.6], [0., 1.]]), [a([0., 0.])], noreduce=True)
    L['skew34'] = lambda: _c(a([[1., 3.4], [0., 1.]]), [a([0., 0.])], noreduce=True)
    L['mono-unreduced'] = lambda: _c(a([[1., 0., 2.5 * np.cos(np.deg2rad(125.))], [0., 1.1, 0.], [0., 0., 2.5 * np.sin(np.deg2rad(125.))]]),
                                     [a([0., 0., 0.])], noreduce=True)
    # rutile (P4_2/mnm): the first species (2 sites) sits on a body-centred sublattice of higher symmetry than the crystal, so for the
    # 4-fold rotations the first candidate translation maps species 0 but not species 1 (the real operation is the 4_2 screw);
    # 'ab22': a two-plus-two-site cut-down of it
    def _rutile(full=True):
        u = 0.3
        ti = [a([0., 0., 0.]), a([0.5, 0.5, 0.5])]
        ox = [a([u, u, 0.]), a([-u, -u, 0.]), a([0.5 + u, 0.5 - u, 0.5]), a([0.5 - u, 0.5 + u, 0.5])]
        return _c(np.diag([1., 1., 0.64]), [ti, ox if full else [ox[0], ox[1]]], noreduce=True)
    L['rutile'] = lambda: _rutile(True)
    L['ab22'] = lambda: _rutile(False)
    L['oblique-nosym'] = lambda: _c(a([[1., 0.3], [0., 1.2]]), [a([0., 0.]), a([0.3, 0.4])], NOSYM=True)
    L['fcc-nosym'] = lambda: _c(0.5 * a([[0., 1., 1.], [1., 0., 1.], [1., 1., 0.]]), [a([0., 0., 0.])], NOSYM=True)
    L['hcp-nosym'] = lambda: _c(a([[0.5, 0.5, 0.], [-np.sqrt(0.75), np.sqrt(0.75), 0.], [0., 0., np.sqrt(8. / 3.)]]),
                                [a([1. / 3, 2. / 3, 0.25]), a([2. / 3, 1. / 3, 0.75])], NOSYM=True)
    return L


_CACHE = {}


def get_crystal(name):
    if name not in _CACHE:
        _CACHE[name] = crystal_library()[name]()
    return _CACHE[name]


def sorted_ops(crys):
    def key(g):
        return (g.rot.tolist(), np.round(g.trans + 1e-9, 6).tolist(), g.indexmap)
    return sorted(crys.G, key=key)


def sym_R(src, name, dim, rmax=None):
    rmax = RMAX if rmax is None else rmax
    return src.ints(name, dim, -rmax, rmax)


def exact_inverse(crys):
    """True iff invlatt*lattice == I exactly over the rationals (dyadic lattices)"""
    from fractions import Fraction as F
    d = crys.dim
    for i in range(d):
        for j in range(d):
            v = sum(F(float(crys.invlatt[i, k])) * F(float(crys.lattice[k, j])) for k in range(d))
            if v != (1 if i == j else 0):
                return False
    return True


def sym_u(src, name, dim):
    # unit-cell coordinate, kept 1e-6 away from the upper cell boundary (incell's 1e-8 shift: DESIGN 1.6)
    return src.reals(name, dim, 0, 1 - 1e-6)


def sym_x(src, name, dim, box=8):
    return src.reals(name, dim, -box, box)


def close(a, b, tol=TOL):
    return harness.close(a, b, tol)


def int_eq(a, b):
    return harness.exact_eq(a, b)


def lattice_route_rot(crys, g):
    """Cartesian rotation rebuilt from the integer lattice rotation (independent of g.cartrot)"""
    return np.dot(crys.lattice, np.dot(g.rot, crys.invlatt))


def image_atom(crys, g, ind, tol=1e-6):
    """independent search for the atom that g maps `ind` onto (Cartesian route, nearest basis atom modulo lattice)"""
    x = crys.g_cart(g, crys.pos2cart(np.zeros(crys.dim, dtype=int), ind))
    u = np.dot(crys.invlatt, x)
    best = None
    for ci in crys.atomindices:
        d = u - crys.basis[ci[0]][ci[1]]
        d = d - np.round(d)
        if np.dot(d, d) < tol * tol:
            best = ci if best is None else 'ambiguous'
    return best
