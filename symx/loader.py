"""Load /repo/onsager/*.py from the current working tree, compiled with optimize=1, with the
module-level numerical environment (`np`, `solve`, `pinv`, `LA`, ...) rebound to the shim.
(DESIGN 1.1)"""
import hashlib
import importlib.abc
import importlib.util
import inspect
import os
import sys

from . import contracts, shim

REPO = os.environ.get('ONSAGER_REPO', '/repo')
SOURCES = {}   # module name -> sha256 of source text compiled
PROXY = shim.NPProxy()


def _rebind(mod):
    d = mod.__dict__
    if 'np' in d:
        d['np'] = PROXY
    if 'solve' in d:
        d['solve'] = contracts.solve
    if 'pinv' in d:
        d['pinv'] = contracts.pinv
    if 'LA' in d:
        d['LA'] = PROXY.linalg


class _Loader(importlib.abc.Loader):
    def __init__(self, path, is_pkg):
        self.path = path
        self.is_pkg = is_pkg

    def create_module(self, spec):
        return None

    def exec_module(self, module):
        with open(self.path) as f:
            src = f.read()
        SOURCES[module.__name__] = hashlib.sha256(src.encode()).hexdigest()
        import warnings
        with warnings.catch_warnings():
            warnings.simplefilter('ignore', SyntaxWarning)
            code = compile(src, self.path, 'exec', optimize=1)
        module.__file__ = self.path
        exec(code, module.__dict__)
        _rebind(module)


class _Finder(importlib.abc.MetaPathFinder):
    def find_spec(self, fullname, path, target=None):
        if fullname == 'onsager':
            p = os.path.join(REPO, 'onsager', '__init__.py')
            return importlib.util.spec_from_file_location(fullname, p, loader=_Loader(p, True),
                                                          submodule_search_locations=[os.path.join(REPO, 'onsager')])
        if fullname.startswith('onsager.'):
            p = os.path.join(REPO, 'onsager', fullname.split('.', 1)[1] + '.py')
            if os.path.exists(p):
                return importlib.util.spec_from_file_location(fullname, p, loader=_Loader(p, False))
        return None


_installed = [False]


def install():
    """shimmed import of onsager from REPO (idempotent)"""
    if _installed[0]:
        return
    for k in list(sys.modules):
        if k == 'onsager' or k.startswith('onsager.'):
            raise RuntimeError('onsager imported before symx.loader.install()')
    sys.meta_path.insert(0, _Finder())
    _installed[0] = True
    shim.ACTIVE[0] = True


def install_plain():
    """plain import of the untouched modules from REPO (used by replays)"""
    if REPO not in sys.path:
        sys.path.insert(0, REPO)


def func_hash(obj):
    """(qualified name, sha256 of source) of a function/class as compiled from the working tree"""
    try:
        src = inspect.getsource(obj)
    except (OSError, TypeError):
        src = repr(obj)
    name = getattr(obj, '__module__', '?') + '.' + getattr(obj, '__qualname__', repr(obj))
    return name, hashlib.sha256(src.encode()).hexdigest()[:16]
