import numpy as np, z3, time
import symx
from symx import ENG, Sym, SymBool, Int, Real
from onsager import crystal, cluster, supercell

crys = crystal.Crystal(np.eye(3), [np.zeros(3)])
sup = supercell.ClusterSupercell(crys, np.array([[2,0,0],[0,2,0],[0,0,2]]))
clexp = cluster.makeclusters(crys, 1.01, 2)
print('clusters', [len(c) for c in clexp], 'sites', sup.size*sup.Nmobile)
jn = crys.jumpnetwork(0, 1.01)

class NP:
    def __getattr__(self, k): return getattr(np, k)
    def zeros(self, shape, dtype=float):
        if dtype in (float, complex):
            a = np.empty(shape, dtype=object); a.fill(0); return a
        return np.zeros(shape, dtype=dtype)
    def array(self, x, *a, **k):
        try:
            return np.array(x, *a, **k)
        except Exception:
            return np.array(x, dtype=object)
cluster.np = NP(); supercell.np = NP()
n = sup.size*sup.Nmobile
def run():
    vals = np.array([Real('v%d' % k) for k in range(len(clexp)+1)], dtype=object)
    occ = np.array([Int('o%d' % k) for k in range(n)], dtype=object)
    for o in occ: ENG.assume((o == 0) | (o == 1))
    MC = cluster.MonteCarloSampler(sup, np.zeros(0), clexp, vals)
    MC.start(occ.copy())
    E = MC.E()
    cnt = sup.evalcluster(occ, np.zeros(0), clexp)
    Eref = np.dot(vals, cnt)
    return [('E', E == Eref)]
t=time.time()
npaths, res = ENG.explore(run)
print(npaths, set((r[0], r[1]) for r in res), 'queries', ENG.nq, 'solver %.1f' % ENG.tq, 'wall %.1f' % (time.time()-t))
