import numpy as np, z3, time
import symx
from symx import ENG, Sym, SymBool, Int, Real
from onsager import crystal, OnsagerCalc, GFcalc, crystalStars, PowerExpansion

class FakeDataset:
    def __init__(self, v):
        self.v = np.array(v) if not (isinstance(v, np.ndarray) and v.dtype == object) else v.copy()
        self.attrs = {}
    def __getitem__(self, k):
        if k == () : return self.v[()] 
        return self.v[k]
    def __iter__(self): return iter(self.v)
    def __len__(self): return len(self.v)
    @property
    def shape(self): return self.v.shape
class FakeGroup:
    def __init__(self): self.d = {}; self.attrs = {}
    def __setitem__(self, k, v):
        if isinstance(v, str): v = np.array(v.encode() if False else v, dtype=object)
        self.d[k] = FakeDataset(v)
    def __getitem__(self, k): return self.d[k]
    def __contains__(self, k): return k in self.d
    def create_group(self, k): g = FakeGroup(); self.d[k] = g; return g
    def items(self): return self.d.items()
    def keys(self): return self.d.keys()

sq = crystal.Crystal(np.eye(2), [np.zeros(2)])
sl = sq.sitelist(0); jn = sq.jumpnetwork(0, 1.01)
d = OnsagerCalc.VacancyMediated(sq, 0, sl, jn, 1)
td = d.tags2preene({})
L = d.Lij(*d.preene2betafree(1.0, **td))
g = FakeGroup()
d.addhdf5(g)
print(sorted(g.d.keys())[:12], len(g.d))
d2 = OnsagerCalc.VacancyMediated.loadhdf5(g)
L2 = d2.Lij(*d2.preene2betafree(1.0, **td))
print(all(np.allclose(a, b) for a, b in zip(L, L2)), d2.tags == d.tags, len(d2.GFvalues))
# compare with real h5py
import h5py
f = h5py.File('x.h5', 'w', driver='core', backing_store=False)
d.addhdf5(f.create_group('D')); d3 = OnsagerCalc.VacancyMediated.loadhdf5(f['D'])
L3 = d3.Lij(*d3.preene2betafree(1.0, **td)); print(all(np.allclose(a, b) for a, b in zip(L, L3)))
