import numpy as np, z3, time, itertools
import symx
from symx import ENG, Sym, SymBool, Int, Real
from onsager import crystal
crys = crystal.Crystal.HCP(1.0)
class NP:
    def __getattr__(self, k): return getattr(np, k)
    def isclose(self, a, b, rtol=1e-5, atol=1e-8):
        if isinstance(a, Sym) or isinstance(b, Sym):
            return abs(a - b) <= atol + rtol * abs(b)
        return np.isclose(a, b, rtol=rtol, atol=atol)
    def round(self, x, *a):
        if isinstance(x, Sym): return x.rint()
        return np.round(x, *a)
crystal.np = NP()
def run():
    cutoff = Real('cutoff')
    ENG.assume((cutoff > 0.5) & (cutoff < 1.5))
    # guard band around every shell distance
    shells = set()
    N0 = len(crys.basis[0])
    for i in range(N0):
        for j in range(N0):
            for nn in itertools.product(range(-3, 4), repeat=3):
                dx0 = crys.unit2cart(np.array(nn), crys.basis[0][j] - crys.basis[0][i]); d20 = float(dx0 @ dx0)
                if 1e-12 < d20 < 1.6**2: shells.add(round(d20, 9))
    for d20 in shells:
        dd = abs(cutoff * cutoff - d20); ENG.assume(dd >= 1e-6)
    jn = crys.jumpnetwork(0, cutoff)
    # oracle: all (i,j,dx) with 0<|dx|<cutoff, enumerated independently over a generous box; membership decided symbolically
    got = {}
    for cls_i, jl in enumerate(jn):
        for (i, j), dx in jl:
            k = (i, j) + tuple(np.round(dx, 6))
            got[k] = got.get(k, 0) + 1
    obs = [('unique', all(v == 1 for v in got.values()))]
    N = len(crys.basis[0])
    conds = []
    for i in range(N):
        for j in range(N):
            for n in itertools.product(range(-3, 4), repeat=3):
                dx = crys.unit2cart(np.array(n), crys.basis[0][j] - crys.basis[0][i])
                d2 = float(dx @ dx)
                if d2 < 1e-12 or d2 > 1.6**2: continue
                k = (i, j) + tuple(np.round(dx, 6))
                inside = (cutoff * cutoff > d2)
                conds.append((inside.z) == z3.BoolVal(k in got))
    obs.append(('exact set', SymBool(z3.And(*conds))))
    return obs
t = time.time()
npaths, res = ENG.explore(run, maxpaths=50)
print(npaths, [(r[0], r[1]) for r in res], 'queries', ENG.nq, 'solver %.1f' % ENG.tq, 'wall %.1f' % (time.time()-t))
