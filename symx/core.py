"""symx core: symbolic numbers over z3 terms + replay-based path exploration.

The real Onsager code is executed on `Sym` values held in dtype=object numpy arrays.
Branching on a symbolic condition (`SymBool.__bool__`) forks the path under solver
control.  See /verif/DESIGN.md section 1.
"""
import fractions
import math
import numbers
import time

import numpy as _np
import z3

Fraction = fractions.Fraction
_DEBUG = bool(__import__('os').environ.get('VERIF_DEBUG'))


class Abort(BaseException):
    """Path cannot be continued (solver unknown / infeasible / budget).  BaseException so
    that `except Exception` in the code under test does not swallow it."""


class Unsupported(Abort):
    """The shim met an operation it does not model: path is out-of-model (inconclusive)."""


class PathBudget(Abort):
    pass


class Infeasible(Abort):
    """assumptions + path condition have no model: the path does not exist (nothing to check)"""


# --------------------------------------------------------------------------------------
# Engine
# --------------------------------------------------------------------------------------
class Engine:
    def __init__(self, timeout_ms=20000):
        self.timeout_ms = timeout_ms
        self.branch_timeout_ms = None  # defaults to timeout_ms
        self.nq = 0
        self.tq = 0.0
        self.nq_unknown = 0
        self.worklist = []
        self.deadline = None
        self.reset_path([])

    # ---- per path state
    def reset_path(self, prefix):
        self.prefix = list(prefix)
        self.decisions = []
        self.pc = []          # path condition (z3 bools)
        self.assumes = []     # input-domain assumptions
        self.axioms = []      # stub contracts (defining equations of fresh unknowns)
        self.nfresh = 0
        self.logv = {}        # name -> (E, y) with y = exp(E/2) > 0
        self.sqrt_memo = {}
        self.uf_memo = {}
        self.notes = []
        self.uf_mode = False
        self.records = {}
        self.allow_hash = False
        self.eigh_contract = False
        self.eigh_hook = None
        self.exact_sqrt_consts = False
        self.concretize_unique_ints = False   # astype(int) returns a python int when the path condition leaves one value
        self.branch_oracle = None   # concolic guidance: callable(z3 bool) -> True / False / None (DESIGN 1.3)
        self.path_status = {}

    def fresh_name(self, base):
        self.nfresh += 1
        return '%s!%d' % (base, self.nfresh)

    def fresh_real(self, base='r'):
        return z3.Real(self.fresh_name(base))

    def fresh_int(self, base='i'):
        return z3.Int(self.fresh_name(base))

    # ---- solver
    def _mk_solver(self, with_axioms=True, timeout_ms=None):
        s = z3.Solver()
        s.set('timeout', int(timeout_ms or self.timeout_ms))
        for a in self.assumes:
            s.add(a)
        if with_axioms:
            for a in self.axioms:
                s.add(a)
        for c in self.pc:
            s.add(c)
        return s

    def check(self, *extra, with_axioms=True, timeout_ms=None):
        if self.deadline is not None and time.time() > self.deadline:
            raise PathBudget('wall budget exhausted')
        s = self._mk_solver(with_axioms, timeout_ms)
        for e in extra:
            s.add(e)
        t = time.time()
        r = s.check()
        self.tq += time.time() - t
        self.nq += 1
        r = str(r)
        if r == 'unknown':
            self.nq_unknown += 1
        if _DEBUG and time.time() - t > 2:
            print('    [slow query %.1fs -> %s: %d assumes, %d axioms(%s), %d pc, extra %s]' % (
                time.time() - t, r, len(self.assumes), len(self.axioms), with_axioms, len(self.pc), [_short(e, 200) for e in extra][:2]), flush=True)
        return r, s

    def require_feasible(self, timeout_ms=None):
        """called by a harness at the end of a path whose branch feasibility may have been over-approximated: if assumptions,
        axioms and path condition together have no model the path does not exist (Infeasible: nothing is stated on it)"""
        r, _ = self.check(timeout_ms=timeout_ms)
        if r == 'unsat':
            raise Infeasible('path condition has no model')
        return r

    def assume(self, cond):
        self.assumes.append(tob(cond))

    def axiom(self, cond):
        self.axioms.append(tob(cond))

    def branch(self, zcond):
        zc = z3.simplify(zcond)
        if z3.is_true(zc):
            return True
        if z3.is_false(zc):
            return False
        n = len(self.decisions)
        if n < len(self.prefix):
            d = self.prefix[n]
            if isinstance(d, tuple):
                raise Abort('replay prefix misaligned (value entry where a branch was expected)')
            self.decisions.append(d)
            self.pc.append(zc if d else z3.Not(zc))   # (redundant for implied decisions, harmless)
            return d
        if self.branch_oracle is not None:
            d = self.branch_oracle(zc)
            if d is not None:
                # the branch a concrete (floating-point) execution at this very input point takes: the other side is not
                # explored (stated in the evidence as an oracle-guided path)
                self.decisions.append(bool(d))
                self.pc.append(zc if d else z3.Not(zc))
                return bool(d)
        bt = self.branch_timeout_ms or self.timeout_ms
        rt, rf = self._feasible(zc, bt), None
        if rt == 'unsat':
            # implied False on this path (recorded so that replays of longer prefixes stay aligned)
            self.decisions.append(False)
            return False
        rf = self._feasible(z3.Not(zc), bt)
        if rf == 'unsat':
            if rt == 'unknown':
                raise Abort('unknown branch feasibility')
            self.decisions.append(True)
            return True
        if rt == 'unknown' or rf == 'unknown':
            raise Abort('unknown branch feasibility')
        # both feasible
        self.worklist.append(self.decisions + [False])
        self.decisions.append(True)
        self.pc.append(zc)
        return True

    def _linear_part(self):
        """conjuncts of assumptions + path condition without products of two non-constant terms (a relaxation)"""
        out = []
        for c in list(self.assumes) + list(self.pc):
            if _is_linear(c):
                out.append(c)
        return out

    def _feasible_relaxed(self, zc, bt):
        """feasibility against the LINEAR part of the path only: unsat is definitive, sat an over-approximation"""
        s = z3.Solver()
        s.set('timeout', int(bt))
        for c in self._linear_part():
            s.add(c)
        s.add(zc)
        t = time.time()
        r = str(s.check())
        self.tq += time.time() - t
        self.nq += 1
        if _DEBUG and time.time() - t > 2:
            print('    [slow relaxed query %.1fs -> %s: %s]' % (time.time() - t, r, _short(zc, 300)), flush=True)
        return r

    def _feasible(self, zc, bt):
        """feasibility of a branch.  With stub axioms present and the full query undecided, fall back to the
        query without them: unsat there is definitive; sat there is taken as feasible (over-approximation:
        an infeasible path can only add vacuous obligations, and any counterexample is replayed anyway)."""
        if not self.axioms:
            if not _is_linear(zc) and any(_has_int(c) for c in self.assumes):
                # nonlinear condition next to integer (rounding) constraints: mixed NIRA queries run into the timeout, so the
                # relaxation without the integer-carrying conjuncts is asked FIRST (unsat definitive, sat over-approximation)
                s2 = z3.Solver()
                s2.set('timeout', int(bt))
                for c in list(self.assumes) + list(self.pc):
                    if not _has_int(c):
                        s2.add(c)
                s2.add(zc)
                t = time.time()
                r2 = str(s2.check())
                self.tq += time.time() - t
                self.nq += 1
                if r2 == 'unsat':
                    return r2
                if r2 == 'sat':
                    self.notes.append('branch feasibility decided without the integer constraints (over-approximation)')
                    return r2
            elif any(_has_int(c) for c in self.assumes) and not all(_is_linear(c) for c in self.pc):
                # linear condition on a path that mixes integer (rounding) constraints with nonlinear conjuncts: decide it
                # against the linear part first (LIRA; unsat definitive, sat over-approximation)
                r2 = self._feasible_relaxed(zc, bt)
                if r2 == 'unsat':
                    return r2
                if r2 == 'sat':
                    self.notes.append('branch feasibility decided against the linear part of the path (over-approximation)')
                    return r2
            r = self.check(zc, timeout_ms=bt)[0]
            if r == 'unknown' and not _is_linear(zc):
                # nonlinear condition on a path that also carries integer (rounding) constraints: decide it against the
                # conjuncts that mention no integer variable (the rounding definitions are total, dropping them relaxes)
                s2 = z3.Solver()
                s2.set('timeout', int(bt))
                for c in list(self.assumes) + list(self.pc):
                    if not _has_int(c):
                        s2.add(c)
                s2.add(zc)
                t = time.time()
                r2 = str(s2.check())
                if _DEBUG and time.time() - t > 2:
                    print('    [slow no-int query %.1fs -> %s: %s]' % (time.time() - t, r2, _short(zc, 300)), flush=True)
                self.tq += time.time() - t
                self.nq += 1
                if r2 == 'sat':
                    self.notes.append('branch feasibility decided without the integer constraints (over-approximation)')
                return r2
            if r == 'unknown' and _is_linear(zc):
                # mixed integer / nonlinear-real path conditions defeat z3: decide the new (linear) condition against
                # the linear part of the path; sat there is an over-approximation (recorded), unsat is definitive
                r2 = self._feasible_relaxed(zc, bt)
                if r2 == 'sat':
                    self.notes.append('branch feasibility decided against the linear part of the path (over-approximation)')
                return r2
            return r
        r, _ = self.check(zc, with_axioms=False, timeout_ms=bt)
        if r == 'unsat':
            return r
        r2, _ = self.check(zc, timeout_ms=min(bt, 5000))
        if r2 != 'unknown':
            return r2
        if r == 'sat':
            self.notes.append('branch feasibility decided without stub axioms (over-approximation)')
            return 'sat'
        return 'unknown'

    # ---- exploration
    def explore(self, fn, maxpaths=2000, budget_s=None, decide=True, stop_on_cex=False):
        """Run fn() on every solver-feasible path.  fn returns a list of (name, obligation)
        or (name, obligation, info) where obligation is SymBool / bool / z3 Bool.
        Returns ExploreResult."""
        self.worklist = [[]]
        res = ExploreResult()
        t0 = time.time()
        self.deadline = (t0 + budget_s) if budget_s else None
        while self.worklist:
            if res.npaths >= maxpaths:
                res.budget_cut += len(self.worklist)
                res.notes.append('max_paths reached with %d pending prefixes' % len(self.worklist))
                break
            if self.deadline is not None and time.time() > self.deadline:
                res.budget_cut += len(self.worklist)
                res.notes.append('wall budget reached with %d pending prefixes' % len(self.worklist))
                break
            prefix = self.worklist.pop()
            self.reset_path(prefix)
            try:
                obs = fn()
            except PathBudget as e:
                res.budget_cut += 1
                res.notes.append('path cut: %s' % e)
                continue
            except Infeasible:
                res.infeasible += 1
                continue
            except Unsupported as e:
                res.aborted.append(('unsupported', str(e), list(self.decisions)))
                continue
            except Abort as e:
                res.aborted.append(('abort', str(e), list(self.decisions)))
                continue
            if self.logv and self.pc:
                # branch feasibility is decided on relaxations (1.3); with the exp-monotonicity facts linking energies and their
                # monomial variables a path can turn out to have no model at all: it does not exist, nothing is stated on it
                try:
                    r_, _ = self.check(timeout_ms=10000)
                except PathBudget:
                    r_ = 'unknown'
                if r_ == 'unsat':
                    res.infeasible += 1
                    continue
            res.npaths += 1
            if not decide:
                res.raw.append((list(self.decisions), obs))
                continue
            for ob in obs:
                name, cond = ob[0], ob[1]
                info = ob[2] if len(ob) > 2 else None
                try:
                    o = self.decide(name, cond, info)
                except PathBudget as e:
                    res.budget_cut += 1
                    o = Outcome(name, 'unknown', None, info, list(self.decisions), 'budget')
                res.outcomes.append(o)
                if stop_on_cex and o.status == 'cex':
                    self.worklist = []
                    break
        res.wall = time.time() - t0
        self.deadline = None
        return res

    def decide(self, name, cond, info=None):
        t0 = time.time()
        if info and 'requires' in info:
            o = self._decide_chain(name, cond, info)
        else:
            o = self._decide(name, cond, info)
        self.path_status[name] = o.status
        if _DEBUG:
            print('    [decide %s -> %s (%s) %.1fs]' % (name, o.status, o.how, time.time() - t0), flush=True)
        return o

    def _decide_chain(self, name, cond, info):
        """lemma chain (DESIGN 2.1): `cond` is an abstract formula over fresh names whose hypotheses are lemmas that
        were each discharged by the solver on this very path (info['requires'] lists their obligation names); it is
        decided standalone.  If a lemma is missing the chain is inconclusive."""
        missing = [r for r in info['requires'] if self.path_status.get(r) != 'ok']
        if missing:
            return Outcome(name, 'unknown', None, info, list(self.decisions), 'lemma not discharged: %s' % missing[:3])
        s = z3.Solver()
        s.set('timeout', int(info.get('timeout_ms') or self.timeout_ms))
        s.add(z3.Not(tob(cond)))
        t = time.time()
        r = str(s.check())
        self.tq += time.time() - t
        self.nq += 1
        if r == 'unsat':
            return Outcome(name, 'ok', None, info, list(self.decisions), 'chain', sexpr=_short(tob(cond)))
        if r == 'sat':
            return Outcome(name, 'unknown', None, info, list(self.decisions), 'abstract chain query is sat (lemmas too weak)')
        return Outcome(name, 'unknown', None, info, list(self.decisions), s.reason_unknown())

    def _decide(self, name, cond, info=None):
        """info may carry 'hyp' (extra hypotheses for this obligation only, e.g. a concrete instantiation for a
        vacuity twin) and 'timeout_ms'."""
        z = tob(cond)
        zs = z3.simplify(z)
        hyp = [tob(h) for h in (info or {}).get('hyp', [])]
        to = (info or {}).get('timeout_ms')
        if z3.is_true(zs):
            return Outcome(name, 'ok', None, info, list(self.decisions), 'trivial', trivial=True)
        if z3.is_false(zs) and (info or {}).get('witnessed'):
            # a constant-false obligation on a path that a concrete execution is known to take: any input of the path's
            # (oracle-fixed) point is a counterexample; the model comes from the input assumptions alone and is replayed
            s0 = z3.Solver()
            s0.set('timeout', 20000)
            for a in self.assumes:
                s0.add(a)
            t = time.time()
            r0 = str(s0.check())
            self.tq += time.time() - t
            self.nq += 1
            if r0 == 'sat':
                return Outcome(name, 'cex', s0.model(), info, list(self.decisions), 'constant false on an oracle-guided path', sexpr='False')
        neg = z3.Not(z)
        if (info or {}).get('probe_first'):
            # purity obligations are polynomial identities in free constants: a point instantiation evaluates them at
            # once, whereas the universal query over many products can run away
            for k, ph in enumerate((info or {}).get('probe', [])):
                ph = ph() if callable(ph) else ph
                if ph is None:
                    continue
                r, s = self.check(neg, *[tob(h) for h in ph], with_axioms=True, timeout_ms=10000)
                if r == 'sat':
                    return Outcome(name, 'cex', s.model(), info, list(self.decisions), 'probe%d' % k, sexpr=_short(zs))
        if hyp and name.startswith('twin:'):
            # a twin stated at a point instantiation only applies on paths that contain that point
            r0, _ = self.check(*hyp, with_axioms=False, timeout_ms=to)
            if r0 == 'unsat':
                return Outcome(name, 'skip', None, info, list(self.decisions), 'instance not on this path')
        if (info or {}).get('standalone'):
            # a lemma that follows from the listed hypotheses alone (each of them an axiom / assumption of this path): decided
            # without the path condition and the other assumptions (fewer hypotheses: unsat stays unsat with more)
            s0 = z3.Solver()
            s0.set('timeout', int(to or self.timeout_ms))
            for h in hyp:
                s0.add(h)
            if (info or {}).get('witnessed'):
                for a in self.assumes:       # input boxes / grid values (linear input assumptions) keep a refuting model inside the domain
                    if _is_linear(a):
                        s0.add(a)
            s0.add(neg)
            t = time.time()
            r0 = str(s0.check())
            self.tq += time.time() - t
            self.nq += 1
            if r0 == 'unsat':
                return Outcome(name, 'ok', None, info, list(self.decisions), 'standalone', sexpr=_short(zs))
            if _DEBUG:
                print('    [standalone %s -> %s]' % (name, r0), flush=True)
            assigned = None
            if r0 == 'sat':
                m0 = s0.model()
                if (info or {}).get('witnessed'):
                    # prefer a generic refuting point (all free inputs non-zero and pairwise different)
                    ins = [toz(v) for v in (info.get('inputs') or {}).values()]
                    ins = [c for c in ins if z3.is_const(c) and z3.is_true(z3.simplify(m0.eval(c, model_completion=True) == 0))
                           or z3.is_const(c)]
                    fc = set(c.decl().name() for c in _free_consts(neg))
                    ins = [c for c in ins if c.decl().name() in fc]
                    if ins:
                        s0.push()
                        s0.set('timeout', 5000)
                        s0.add(z3.Distinct(*ins) if len(ins) > 1 else z3.BoolVal(True))
                        for c in ins:
                            s0.add(c != 0)
                        if str(s0.check()) == 'sat':
                            m0 = s0.model()
                        s0.pop()
                assigned = {d.name(): m0[d] for d in m0.decls() if d.arity() == 0}
            elif (info or {}).get('witnessed') and not hyp:
                # hypothesis-free polynomial lemma the solver does not finish on: evaluate it at a few rational points (z3's own
                # substitution + simplifier); a point where it is false refutes the lemma just like a model would
                consts = _free_consts(neg)
                for trial in range(3):
                    sub = [(c, z3.RealVal('%d/%d' % (3 + (7 * i + 5 * trial) % 11, 4 + (3 * i + trial) % 7)) if c.sort() == z3.RealSort() else z3.IntVal(1 + i % 3))
                           for i, c in enumerate(consts)]
                    val = z3.simplify(z3.substitute(neg, *sub))
                    if _DEBUG:
                        print('    [point evaluation of %s: %d consts -> %s]' % (name, len(consts), _short(val, 80)), flush=True)
                    if z3.is_true(val):
                        assigned = {c.decl().name(): v for c, v in sub}
                        r0 = 'sat'
                        break
            if r0 == 'sat' and (info or {}).get('witnessed') and not name.startswith(('twin', 'lemma:')):
                # the lemma is refutable as a statement about free variables; on an oracle-guided path the input point is known
                # except for the free inputs, which are taken from the refuting model: a CANDIDATE counterexample, decided by
                # the replay on the real code (not reproducing -> the obligation stays inconclusive, flagged 'soft')
                s1 = z3.Solver()
                s1.set('timeout', 20000)
                for a in self.assumes:
                    s1.add(a)
                for nm, v in (info.get('inputs') or {}).items():
                    zv = toz(v)
                    if z3.is_const(zv) and zv.decl().name() in assigned:
                        s1.add(zv == assigned[zv.decl().name()])
                if str(s1.check()) == 'sat':
                    info = dict(info, soft=True)
                    return Outcome(name, 'cex', s1.model(), info, list(self.decisions), 'standalone lemma refuted; candidate input', sexpr=_short(zs))
            if (info or {}).get('standalone') == 'only':
                st = 'cex' if (r0 == 'sat' and name.startswith('twin:')) else 'unknown'
                return Outcome(name, st, None, info, list(self.decisions), 'standalone query %s' % r0, sexpr=_short(zs))
        # assumption slicing: without stub axioms first
        if self.axioms:
            r, s = self.check(neg, *hyp, with_axioms=False, timeout_ms=to)
            if r == 'unsat':
                return Outcome(name, 'ok', None, info, list(self.decisions), 'sliced', sexpr=_short(zs))
        r, s = self.check(neg, *hyp, with_axioms=True, timeout_ms=to)
        if r == 'unsat':
            return Outcome(name, 'ok', None, info, list(self.decisions), 'full', sexpr=_short(zs))
        if r == 'sat':
            return Outcome(name, 'cex', s.model(), info, list(self.decisions), 'full', sexpr=_short(zs))
        why = s.reason_unknown()
        # the universal query is undecided: look for a counterexample at the point instantiations the harness
        # offers (each is again a solver query; a sat answer is a concrete input, replayed like any other)
        for k, ph in enumerate((info or {}).get('probe', [])):
            if callable(ph):
                ph = ph()
                if ph is None:
                    continue
            r, s = self.check(neg, *[tob(h) for h in ph], with_axioms=True, timeout_ms=min(to or self.timeout_ms, 20000))
            if r == 'sat':
                return Outcome(name, 'cex', s.model(), info, list(self.decisions), 'probe%d' % k, sexpr=_short(zs))
        return Outcome(name, 'unknown', None, info, list(self.decisions), why, sexpr=_short(zs))


z3.set_option(max_args=12, max_lines=8, max_depth=10, max_visited=400, max_width=120)


_LIN_CACHE = {}
_INT_CACHE = {}


def _free_consts(e):
    out, seen, todo = [], set(), [e]
    while todo:
        t = todo.pop()
        i = t.get_id()
        if i in seen:
            continue
        seen.add(i)
        if z3.is_const(t) and t.decl().kind() == z3.Z3_OP_UNINTERPRETED:
            out.append(t)
        todo.extend(t.children())
    return sorted(out, key=lambda c: c.decl().name())


def _has_int(e):
    k = e.get_id()
    if k in _INT_CACHE:
        return _INT_CACHE[k]
    todo, seen, found = [e], set(), False
    while todo and not found:
        t = todo.pop()
        i = t.get_id()
        if i in seen:
            continue
        seen.add(i)
        if z3.is_int(t) and z3.is_const(t) and t.decl().kind() == z3.Z3_OP_UNINTERPRETED:
            found = True
        todo.extend(t.children())
    _INT_CACHE[k] = found
    return found


def _is_linear(e):
    """no product / division of two non-numeral subterms anywhere in e"""
    k = e.get_id()
    if k in _LIN_CACHE:
        return _LIN_CACHE[k]
    todo = [e]
    seen = set()
    ok = True
    while todo and ok:
        t = todo.pop()
        i = t.get_id()
        if i in seen:
            continue
        seen.add(i)
        if z3.is_app(t):
            kind = t.decl().kind()
            ch = t.children()
            if kind == z3.Z3_OP_MUL:
                if sum(1 for c in ch if not (z3.is_rational_value(c) or z3.is_int_value(c))) > 1:
                    ok = False
            elif kind in (z3.Z3_OP_DIV, z3.Z3_OP_IDIV, z3.Z3_OP_MOD, z3.Z3_OP_POWER):
                if len(ch) > 1 and not (z3.is_rational_value(ch[1]) or z3.is_int_value(ch[1])):
                    ok = False
            todo.extend(ch)
    _LIN_CACHE[k] = ok
    return ok


def _short(z, n=400):
    """bounded rendering of a formula (sexpr() of a large shared term is exponential; the pretty printer is bounded)"""
    try:
        s = str(z).replace('\n', ' ')
    except Exception:   # noqa
        s = '<formula>'
    return s if len(s) <= n else s[:n] + ' ...'


class Outcome:
    __slots__ = ('name', 'status', 'model', 'info', 'decisions', 'how', 'trivial', 'sexpr', 'pcsig')

    def __init__(self, name, status, model, info, decisions, how, trivial=False, sexpr=None):
        self.name = name
        self.status = status
        self.model = model
        self.info = info
        self.decisions = decisions
        self.how = how
        self.trivial = trivial
        self.sexpr = sexpr
        self.pcsig = tuple(c.hash() for c in ENG.pc) if ENG is not None else ()


class ExploreResult:
    def __init__(self):
        self.npaths = 0
        self.outcomes = []
        self.aborted = []
        self.budget_cut = 0
        self.infeasible = 0
        self.notes = []
        self.raw = []
        self.wall = 0.0

    def count(self, status):
        return sum(1 for o in self.outcomes if o.status == status)

    @property
    def cex(self):
        return [o for o in self.outcomes if o.status == 'cex']


ENG = Engine()


# --------------------------------------------------------------------------------------
# conversions
# --------------------------------------------------------------------------------------
def realval(x):
    if isinstance(x, Fraction):
        return z3.RealVal(str(x))
    if isinstance(x, (int, _np.integer)):
        return z3.RealVal(int(x))
    return z3.RealVal(str(Fraction(float(x))))


def toz(x):
    if isinstance(x, Sym):
        return x.z
    if isinstance(x, SymBool):
        return z3.If(x.z, z3.IntVal(1), z3.IntVal(0))
    if isinstance(x, (bool, _np.bool_)):
        return z3.IntVal(int(x))
    if isinstance(x, (int, _np.integer)):
        return z3.IntVal(int(x))
    if isinstance(x, (float, _np.floating)):
        f = float(x)
        if math.isnan(f) or math.isinf(f):
            raise Unsupported('non-finite float %r meets a symbolic value' % f)
        return z3.RealVal(str(Fraction(f)))
    if isinstance(x, Fraction):
        return z3.RealVal(str(x))
    if isinstance(x, (complex, _np.complexfloating)):
        if x.imag == 0:
            return toz(x.real)
        raise Unsupported('complex constant meets symbolic value')
    raise TypeError(type(x))


def tob(o):
    if isinstance(o, SymBool):
        return o.z
    if z3.is_expr(o):
        return o
    if isinstance(o, _np.ndarray):
        return z3.And(*[tob(x) for x in o.flat]) if o.size else z3.BoolVal(True)
    return z3.BoolVal(bool(o))


def _coerce(a, b):
    if a.sort() == b.sort():
        return a, b
    if z3.is_int(a):
        a = z3.RealVal(a.as_long()) if z3.is_int_value(a) else z3.ToReal(a)
    if z3.is_int(b):
        b = z3.RealVal(b.as_long()) if z3.is_int_value(b) else z3.ToReal(b)
    return a, b


def _numval(z):
    """python value if z is a numeral else None"""
    if z3.is_int_value(z):
        return z.as_long()
    if z3.is_rational_value(z):
        return z.as_fraction()
    return None


def _is_concrete_zero(o):
    return isinstance(o, (int, float, _np.integer, _np.floating, Fraction)) and o == 0


def _is_concrete_one(o):
    return isinstance(o, (int, float, _np.integer, _np.floating, Fraction)) and o == 1 and not isinstance(o, (bool, _np.bool_))


# --------------------------------------------------------------------------------------
# SymBool
# --------------------------------------------------------------------------------------
class SymBool:
    __slots__ = ('z',)

    def __init__(self, z):
        self.z = z

    def __bool__(self):
        return ENG.branch(self.z)

    def __and__(self, o):
        if isinstance(o, _np.ndarray):
            return NotImplemented
        return SymBool(z3.And(self.z, tob(o)))
    __rand__ = __and__

    def __or__(self, o):
        if isinstance(o, _np.ndarray):
            return NotImplemented
        return SymBool(z3.Or(self.z, tob(o)))
    __ror__ = __or__

    def __xor__(self, o):
        return SymBool(z3.Xor(self.z, tob(o)))
    __rxor__ = __xor__

    def __invert__(self):
        return SymBool(z3.Not(self.z))

    def __eq__(self, o):
        return SymBool(self.z == tob(o))

    def __ne__(self, o):
        return SymBool(self.z != tob(o))

    def __hash__(self):
        return 0

    def logical_not(self):
        return SymBool(z3.Not(self.z))

    def __repr__(self):
        return 'SymBool(%s)' % self.z

    # arithmetic use of a boolean (sum of comparisons)
    def _num(self):
        return Sym(z3.If(self.z, z3.IntVal(1), z3.IntVal(0)))

    def __add__(self, o):
        return self._num() + o
    __radd__ = __add__

    def __mul__(self, o):
        return self._num() * o
    __rmul__ = __mul__


def sb(x):
    return x if isinstance(x, SymBool) else SymBool(tob(x))


TRUE = SymBool(z3.BoolVal(True))
FALSE = SymBool(z3.BoolVal(False))


def And(*xs):
    xs = [tob(x) for x in xs]
    return SymBool(z3.And(*xs)) if xs else TRUE


def Or(*xs):
    xs = [tob(x) for x in xs]
    return SymBool(z3.Or(*xs)) if xs else FALSE


def Not(x):
    return SymBool(z3.Not(tob(x)))


def Implies(a, b):
    return SymBool(z3.Implies(tob(a), tob(b)))


# --------------------------------------------------------------------------------------
# Sym
# --------------------------------------------------------------------------------------
class Sym(numbers.Number):
    __slots__ = ('z', 'meta')
    HASHTRACE = None

    def __init__(self, z, meta=None):
        self.z = z
        self.meta = meta   # optional dict: 'lin' (linear form in log-variables), 'mono', 'fact', 'sq'

    @property
    def isint(self):
        return z3.is_int(self.z)

    # ---- arithmetic
    def _bin(self, o, f, swap=False):
        try:
            oz = toz(o)
        except TypeError:
            return NotImplemented
        a, b = (oz, self.z) if swap else (self.z, oz)
        a, b = _coerce(a, b)
        va, vb = _numval(a), _numval(b)
        if va is not None and vb is not None:
            r = f(Fraction(va), Fraction(vb))
            if z3.is_int(a) and r.denominator == 1:
                return Sym(z3.IntVal(int(r)))
            return Sym(z3.RealVal(str(r)))
        return Sym(f(a, b))

    def __add__(self, o):
        if _is_concrete_zero(o):
            return self
        r = self._bin(o, lambda a, b: a + b)
        if r is not NotImplemented:
            r.meta = _meta_add(self, o, 1, 1)
        return r

    def __radd__(self, o):
        if _is_concrete_zero(o):
            return self
        r = self._bin(o, lambda a, b: a + b, swap=True)
        if r is not NotImplemented:
            r.meta = _meta_add(self, o, 1, 1)
        return r

    def __sub__(self, o):
        if _is_concrete_zero(o):
            return self
        r = self._bin(o, lambda a, b: a - b)
        if r is not NotImplemented:
            r.meta = _meta_add(self, o, 1, -1)
        return r

    def __rsub__(self, o):
        r = self._bin(o, lambda a, b: a - b, swap=True)
        if r is not NotImplemented:
            r.meta = _meta_add(self, o, -1, 1)
        return r

    def __mul__(self, o):
        if isinstance(o, _np.ndarray):
            return NotImplemented
        if _is_concrete_zero(o):
            return 0 if self.isint and isinstance(o, (int, _np.integer)) else 0.0
        if _is_concrete_one(o):
            return self
        r = self._bin(o, lambda a, b: a * b)
        if r is NotImplemented:
            return r
        r.meta = _meta_mul(self, o)
        return _canon(r)

    def __rmul__(self, o):
        if isinstance(o, _np.ndarray):
            return NotImplemented
        if _is_concrete_zero(o):
            return 0 if self.isint and isinstance(o, (int, _np.integer)) else 0.0
        if _is_concrete_one(o):
            return self
        r = self._bin(o, lambda a, b: a * b, swap=True)
        if r is NotImplemented:
            return r
        r.meta = _meta_mul(self, o)
        return _canon(r)

    def __truediv__(self, o):
        if isinstance(o, _np.ndarray):
            return NotImplemented
        if _is_concrete_one(o):
            return self if not self.isint else Sym(z3.ToReal(self.z), self.meta)
        try:
            oz = toz(o)
        except TypeError:
            return NotImplemented
        a = z3.ToReal(self.z) if z3.is_int(self.z) else self.z
        b = z3.ToReal(oz) if z3.is_int(oz) else oz
        vb = _numval(z3.simplify(b)) if not isinstance(o, Sym) or o.meta is None else None
        if vb is not None:
            if vb == 0:
                raise ZeroDivisionError('symbolic / 0')
            va = _numval(a)
            if va is not None:
                return Sym(z3.RealVal(str(Fraction(va) / Fraction(vb))))
            r = Sym(a * z3.RealVal(str(1 / Fraction(vb))))
            r.meta = _meta_mul(self, 1 / Fraction(vb))
            return _canon(r)
        r = Sym(a / b)
        r.meta = _meta_div(self, o)
        return _canon(r)

    def __rtruediv__(self, o):
        if isinstance(o, _np.ndarray):
            return NotImplemented
        try:
            oz = toz(o)
        except TypeError:
            return NotImplemented
        a = z3.ToReal(oz) if z3.is_int(oz) else oz
        b = z3.ToReal(self.z) if z3.is_int(self.z) else self.z
        if _is_concrete_zero(o):
            return 0.0
        r = Sym(a / b)
        r.meta = _meta_div(o, self)
        return _canon(r)

    def __floordiv__(self, o):
        oz = toz(o)
        if z3.is_int(self.z) and z3.is_int(oz):
            v = _numval(oz)
            if v is not None and v > 0:
                return Sym(self.z / oz)   # z3 integer division == floor for positive divisor
            if v is not None and v < 0:
                return Sym(_floordiv_neg(self.z, oz))
            if v is None:
                # symbolic integer divisor: case split on its value under solver control (like __index__)
                c = Sym(oz).concretize()
                if c != 0:
                    return self // c
            raise Unsupported('int // zero divisor')
        a, b = _coerce(self.z, oz)
        a = z3.ToReal(a) if z3.is_int(a) else a
        b = z3.ToReal(b) if z3.is_int(b) else b
        return Sym(z3.ToReal(z3.ToInt(a / b)))

    def __rfloordiv__(self, o):
        return Sym(toz(o)) // self

    def __mod__(self, o):
        oz = toz(o)
        if z3.is_int(self.z) and z3.is_int(oz):
            v = _numval(oz)
            if v is not None and v > 0:
                return Sym(self.z % oz)
            if v is None:
                c = Sym(oz).concretize()   # symbolic integer divisor: case split on its value (like __index__)
                if c > 0:
                    return self % c
            raise Unsupported('int %% non-positive divisor')
        a, b = _coerce(self.z, oz)
        a = z3.ToReal(a) if z3.is_int(a) else a
        b = z3.ToReal(b) if z3.is_int(b) else b
        v = _numval(z3.simplify(b))
        if v is not None and v > 0:
            return Sym(a - b * z3.ToReal(z3.ToInt(a / b)))
        raise Unsupported('real %% non-positive or symbolic divisor')

    def __rmod__(self, o):
        return Sym(toz(o)) % self

    def __neg__(self):
        v = _numval(self.z)
        if v is not None:
            return Sym(z3.IntVal(-v) if self.isint else z3.RealVal(str(-v)))
        return Sym(-self.z, _meta_add(self, 0, -1, 1))

    def __pos__(self):
        return self

    def __abs__(self):
        return Sym(z3.If(self.z >= 0, self.z, -self.z))

    def __pow__(self, n):
        if isinstance(n, float) and n == int(n):
            n = int(n)
        if isinstance(n, (int, _np.integer)):
            n = int(n)
            if n >= 0:
                r = 1
                for _ in range(n):
                    r = self * r
                if n == 0:
                    return Sym(z3.IntVal(1)) if self.isint else Sym(z3.RealVal(1))
                return r
            return 1 / (self ** (-n))
        if isinstance(n, float) and n == 0.5:
            return self.sqrt()
        raise Unsupported('Sym ** %r' % (n,))

    def __rpow__(self, b):
        raise Unsupported('%r ** Sym' % (b,))

    # ---- comparison
    def _cmp(self, o, f):
        if isinstance(o, _np.ndarray):
            return NotImplemented
        try:
            oz = toz(o)
        except TypeError:
            return NotImplemented
        a, b = _coerce(self.z, oz)
        return SymBool(f(a, b))

    def __lt__(self, o):
        return self._cmp(o, lambda a, b: a < b)

    def __le__(self, o):
        return self._cmp(o, lambda a, b: a <= b)

    def __gt__(self, o):
        return self._cmp(o, lambda a, b: a > b)

    def __ge__(self, o):
        return self._cmp(o, lambda a, b: a >= b)

    def __eq__(self, o):
        r = self._cmp(o, lambda a, b: a == b)
        return FALSE if r is NotImplemented and o is None else r

    def __ne__(self, o):
        return self._cmp(o, lambda a, b: a != b)

    def __hash__(self):
        if Sym.HASHTRACE is not None:
            Sym.HASHTRACE.append(self.z)
        elif not ENG.allow_hash:
            # a constant hash is only sound when every key of the container is symbolic; a mix of
            # concrete and symbolic keys would never be compared.  Harnesses opt in explicitly.
            raise Unsupported('symbolic value hashed into a container (harness must concretise it or opt in)')
        return 0

    def __bool__(self):
        return ENG.branch(self.z != 0)

    # ---- concretisation (index, range, ...)
    def __index__(self):
        if not self.isint:
            raise Unsupported('__index__ of real-sorted symbol')
        return self.concretize()

    def __int__(self):
        if not self.isint:
            # truncation through fresh floor integers (f <= x < f+1): their model values are numerals even when x itself is an
            # algebraic number (sqrt contracts) or a quotient, which to_int terms are not
            v = self._unique_trunc()
            if v is not None:
                return v
            return self.__trunc__().concretize()
        return self.concretize()

    def _unique_floor(self):
        n = len(ENG.decisions)
        if n < len(ENG.prefix) and isinstance(ENG.prefix[n], tuple) and ENG.prefix[n][0] == 'ufloor':
            ENG.decisions.append(ENG.prefix[n])
            return ENG.prefix[n][1]
        val = None
        r, s_ = ENG.check()
        if r == 'sat':
            mv = s_.model().eval(self.z, model_completion=True)
            try:
                if z3.is_algebraic_value(mv):
                    mv = mv.approx(20)
                cand = math.floor(Fraction(mv.numerator_as_long(), mv.denominator_as_long()))
            except Exception:
                cand = None
            if cand is not None:
                r1, _ = ENG.check(self.z < cand)
                r2, _ = ENG.check(self.z >= cand + 1) if r1 == 'unsat' else ('skip', None)
                if r1 == 'unsat' and r2 == 'unsat':
                    val = cand
        ENG.decisions.append(('ufloor', val))
        return val

    def _unique_trunc(self):
        """int(x) for a real term without a fork when the path condition pins it: candidate from a model, then two queries with
        a purely real goal (x < c, x >= c+1) must both be unsat; only for non-negative candidates.  Recorded with the decisions."""
        n = len(ENG.decisions)
        if n < len(ENG.prefix) and isinstance(ENG.prefix[n], tuple) and ENG.prefix[n][0] == 'utrunc':
            ENG.decisions.append(ENG.prefix[n])
            return ENG.prefix[n][1]
        val = None
        r, s_ = ENG.check()
        if r == 'sat':
            mv = s_.model().eval(self.z, model_completion=True)
            try:
                if z3.is_algebraic_value(mv):
                    mv = mv.approx(20)
                fv = Fraction(mv.numerator_as_long(), mv.denominator_as_long())
                cand = math.floor(fv)
            except Exception:
                cand = None
            if cand is not None and cand >= 0:
                r1, _ = ENG.check(self.z < cand)
                r2, _ = ENG.check(self.z >= cand + 1) if r1 == 'unsat' else ('skip', None)
                if r1 == 'unsat' and r2 == 'unsat':
                    val = cand
        ENG.decisions.append(('utrunc', val))
        return val

    def __float__(self):
        v = _numval(z3.simplify(self.z))
        if v is not None:
            return float(v)
        raise Unsupported('float() of a symbolic value (would concretise)')

    def __complex__(self):
        return complex(self.__float__())

    def concretize(self, limit=64):
        zs = z3.simplify(self.z)
        if z3.is_int_value(zs):
            return zs.as_long()
        for _ in range(limit):
            n = len(ENG.decisions)
            if n < len(ENG.prefix) and isinstance(ENG.prefix[n], tuple):
                # replay: candidate value recorded on the original run (solver models are not
                # guaranteed to be reproducible, the exploration tree must be)
                val = ENG.prefix[n][1]
                ENG.decisions.append(ENG.prefix[n])
            else:
                r, s = ENG.check()
                if r == 'unsat':
                    raise Infeasible('no value left for a case split')
                if r != 'sat':
                    raise Abort('concretize: %s' % r)
                mv = z3.simplify(s.model().eval(self.z, model_completion=True))
                if not z3.is_int_value(mv):
                    raise Abort('concretize: model value of the integer term is not a numeral')
                val = mv.as_long()
                ENG.decisions.append(('val', val))
            if ENG.branch(self.z == val):
                return val
        raise Abort('concretize: more than %d values' % limit)

    def unique_int(self):
        """python int if the path condition leaves exactly one value for this integer term, else None (no fork: two queries;
        the outcome is recorded with the decisions so that a replayed prefix sees the same)"""
        zs = z3.simplify(self.z)
        if z3.is_int_value(zs):
            return zs.as_long()
        if not self.isint:
            return None
        n = len(ENG.decisions)
        if n < len(ENG.prefix) and isinstance(ENG.prefix[n], tuple) and ENG.prefix[n][0] == 'uniq':
            ENG.decisions.append(ENG.prefix[n])
            return ENG.prefix[n][1]
        val = None
        r, s_ = ENG.check()
        if r == 'sat':
            cand = s_.model().eval(self.z, model_completion=True).as_long()
            r2, _ = ENG.check(self.z != cand)
            if r2 == 'unsat':
                val = cand
        ENG.decisions.append(('uniq', val))
        return val

    # ---- rounding
    def __floor__(self):
        if self.isint:
            return self
        v = _numval(z3.simplify(self.z))
        if v is not None:
            return Sym(z3.IntVal(math.floor(v)))
        # fresh integer with its defining inequalities (total function: always satisfiable);
        # z3 decides this LIRA form far more reliably than to_int terms
        key = ('floor', self.z.get_id())
        if key in ENG.uf_memo:
            return ENG.uf_memo[key][1]
        if ENG.concretize_unique_ints:
            # harness option: when the path condition pins the floor (two queries with a purely real goal), use the number and
            # keep integer unknowns out of the path altogether
            c = self._unique_floor()
            if c is not None:
                r = Sym(z3.IntVal(c))
                ENG.uf_memo[key] = (self, r)
                return r
        f = ENG.fresh_int('floor')
        ENG.assumes.append(z3.And(z3.ToReal(f) <= self.z, self.z < z3.ToReal(f) + 1))
        r = Sym(f)
        ENG.uf_memo[key] = (self, r)
        return r

    def floor(self):
        return self.__floor__()

    def __ceil__(self):
        if self.isint:
            return self
        return -((-self).__floor__())

    def ceil(self):
        return self.__ceil__()

    def rint(self):
        """round half to even.  Encoded with a fresh integer r: |x - r| <= 1/2 and, at an exact tie, r even
        (r = 2k).  Equivalent to the ite/mod form but without mod terms, which z3 handles poorly next to reals."""
        if self.isint:
            return self
        v = _numval(z3.simplify(self.z))
        if v is not None:
            fl = math.floor(v)
            d = v - fl
            r = fl if d < Fraction(1, 2) else (fl + 1 if d > Fraction(1, 2) else (fl if fl % 2 == 0 else fl + 1))
            return Sym(z3.IntVal(r))
        key = ('rint', self.z.get_id())
        if key in ENG.uf_memo:
            return ENG.uf_memo[key][1]
        if ENG.concretize_unique_ints:
            # floor(x + 1/2) pinned by the path condition and no tie possible: the rounded value is that number
            sh = Sym(self.z + z3.RealVal('1/2'))
            c = sh._unique_floor()
            if c is not None:
                rt, _ = ENG.check(sh.z == c)
                if rt == 'unsat':
                    r = Sym(z3.IntVal(c))
                    ENG.uf_memo[key] = (self, r)
                    return r
        r = ENG.fresh_int('rint')
        k = ENG.fresh_int('rintk')
        half = z3.RealVal('1/2')
        rr = z3.ToReal(r)
        ENG.assumes.append(z3.And(self.z - rr <= half, rr - self.z <= half,
                                  z3.Implies(z3.Or(self.z - rr == half, rr - self.z == half), r == 2 * k)))
        out = Sym(r)
        ENG.uf_memo[key] = (self, out)
        return out

    def __round__(self, n=None):
        if n not in (None, 0):
            raise Unsupported('round(x, %r)' % n)
        return self.rint()

    def __trunc__(self):
        if self.isint:
            return self
        return Sym(z3.If(self.z >= 0, self.__floor__().z, (-((-self).__floor__())).z))

    # ---- transcendental (contracts, DESIGN 1.4)
    def sqrt(self):
        from . import contracts
        return contracts.sym_sqrt(self)

    def exp(self):
        from . import contracts
        return contracts.sym_exp(self)

    def log(self):
        from . import contracts
        return contracts.sym_log(self)

    def conjugate(self):
        return self

    conj = conjugate

    @property
    def real(self):
        return self

    @property
    def imag(self):
        return 0

    def __repr__(self):
        return 'Sym(%s)' % self.z

    def __deepcopy__(self, memo):
        return self

    def __copy__(self):
        return self

    def __reduce__(self):
        raise Unsupported('pickling a symbolic value')


def _canon(r):
    """a value known to be a monomial in the positive log-variables gets its canonical term (so that
    algebraically equal monomials are syntactically equal: s*p/(s*q) cancels)"""
    if r.meta and 'mono' in r.meta and _CANCEL[0]:
        from . import contracts
        c = contracts.mono_sym(r.meta['mono'])
        meta = dict(r.meta)
        return Sym(c.z, meta)
    return r


def _floordiv_neg(a, b):
    # python floor division for ints with b<0 (z3 div rounds so that remainder >= 0)
    q = a / b
    return z3.If(a % b == 0, q, q - 1)


# ---- metadata propagation ------------------------------------------------------------
# meta['lin']  = (const Fraction, {logvar name: Fraction})   value is this linear form in log-variables
# meta['mono'] = (coef Fraction>0, {logvar name: int power of y})   value is coef * prod y^p  (positive)
# meta['fact'] = (mono, rest Sym, k)   value is mono * rest**k, k in {1,-1}
# meta['sq']   = (x Sym, c Fraction>0)   value is c * x**2
def _concrete_fraction(o):
    if isinstance(o, Fraction):
        return o
    if isinstance(o, (bool, _np.bool_)):
        return Fraction(int(o))
    if isinstance(o, (int, _np.integer)):
        return Fraction(int(o))
    if isinstance(o, (float, _np.floating)):
        return Fraction(float(o))
    return None


def _meta_add(a, b, sa, sb_):
    """metadata of sa*a + sb_*b (a is Sym; b Sym or concrete)"""
    la = a.meta.get('lin') if a.meta else None
    if la is None:
        return None
    if isinstance(b, Sym):
        lb = b.meta.get('lin') if b.meta else None
        if lb is None:
            return None
    else:
        c = _concrete_fraction(b)
        if c is None:
            return None
        lb = (c, {})
    const = sa * la[0] + sb_ * lb[0]
    d = {k: sa * v for k, v in la[1].items()}
    for k, v in lb[1].items():
        d[k] = d.get(k, 0) + sb_ * v
    return {'lin': (const, {k: v for k, v in d.items() if v != 0})}


_CANCEL = [False]


def _mono_mul(m1, m2, k2=1):
    coef = m1[0] * (m2[0] if k2 == 1 else 1 / m2[0])
    d = dict(m1[1])
    for n, p in m2[1].items():
        q = d.get(n, 0)
        d[n] = q + k2 * p
        if abs(d[n]) < abs(q) + abs(p):
            _CANCEL[0] = True      # a variable cancelled (partly): the canonical term is simpler than the structural one
    return (coef, {n: p for n, p in d.items() if p != 0})


def _meta_of(x):
    """(kind, payload) view: returns dict with optional 'mono','fact' for Sym or concrete positive"""
    if isinstance(x, Sym):
        return x.meta or {}
    c = _concrete_fraction(x)
    if c is not None and c > 0:
        return {'mono': (c, {})}
    return {}


def _meta_mul(a, b):
    ma, mb = _meta_of(a), _meta_of(b)
    out = {}
    _CANCEL[0] = False
    # linear form times concrete
    cb = None if isinstance(b, Sym) else _concrete_fraction(b)
    ca = None if isinstance(a, Sym) else _concrete_fraction(a)
    if 'lin' in ma and cb is not None:
        out['lin'] = (ma['lin'][0] * cb, {k: v * cb for k, v in ma['lin'][1].items()})
    if 'lin' in mb and ca is not None:
        out['lin'] = (mb['lin'][0] * ca, {k: v * ca for k, v in mb['lin'][1].items()})
    if 'mono' in ma and 'mono' in mb:
        out['mono'] = _mono_mul(ma['mono'], mb['mono'])
    elif 'mono' in ma and 'fact' in mb:
        f = mb['fact']
        out['fact'] = (_mono_mul(ma['mono'], f[0]), f[1], f[2])
    elif 'fact' in ma and 'mono' in mb:
        f = ma['fact']
        out['fact'] = (_mono_mul(f[0], mb['mono']), f[1], f[2])
    elif 'mono' in ma and isinstance(b, Sym):
        out['fact'] = (ma['mono'], b, 1)
    elif 'mono' in mb and isinstance(a, Sym):
        out['fact'] = (mb['mono'], a, 1)
    if isinstance(a, Sym) and isinstance(b, Sym) and a.z.eq(b.z):
        out['sq'] = (a, Fraction(1))
    elif 'sq' in ma and cb is not None and cb > 0:
        out['sq'] = (ma['sq'][0], ma['sq'][1] * cb)
    elif 'sq' in mb and ca is not None and ca > 0:
        out['sq'] = (mb['sq'][0], mb['sq'][1] * ca)
    return out or None


def _meta_div(a, b):
    ma, mb = _meta_of(a), _meta_of(b)
    out = {}
    _CANCEL[0] = False
    if 'mono' in ma and 'mono' in mb:
        out['mono'] = _mono_mul(ma['mono'], mb['mono'], -1)
    elif 'fact' in ma and 'mono' in mb:
        f = ma['fact']
        out['fact'] = (_mono_mul(f[0], mb['mono'], -1), f[1], f[2])
    elif 'mono' in ma and isinstance(b, Sym) and 'fact' not in mb:
        out['fact'] = (ma['mono'], b, -1)
    elif 'mono' in mb and isinstance(a, Sym) and 'fact' not in ma:
        out['fact'] = (_mono_mul((Fraction(1), {}), mb['mono'], -1), a, 1)
    return out or None


class allow_hash:
    """opt-in: all keys of the hash containers met inside this block are symbolic"""

    def __enter__(self):
        self.prev = ENG.allow_hash
        ENG.allow_hash = True

    def __exit__(self, *a):
        ENG.allow_hash = self.prev


def Int(name):
    return Sym(z3.Int(name))


def Real(name):
    return Sym(z3.Real(name))


def const(x):
    """wrap a concrete number as a Sym (used in shim validation: concrete run through symbolic build)"""
    return Sym(toz(x))


def is_sym(x):
    return isinstance(x, (Sym, SymBool))


def has_sym(a):
    if isinstance(a, (Sym, SymBool)):
        return True
    if isinstance(a, _np.ndarray):
        if a.dtype != object:
            return False
        return any(isinstance(x, (Sym, SymBool)) for x in a.flat)
    if isinstance(a, (list, tuple)):
        return any(has_sym(x) for x in a)
    return False


def model_value(model, x):
    """concrete python value of x (Sym / number / array) under model"""
    if isinstance(x, Sym):
        v = model.eval(x.z, model_completion=True)
        if z3.is_int_value(v):
            return v.as_long()
        if z3.is_rational_value(v):
            fr = v.as_fraction()
            return float(fr)
        if z3.is_algebraic_value(v):
            return float(v.approx(20).as_fraction())
        raise ValueError('cannot evaluate %s -> %s' % (x.z, v))
    if isinstance(x, SymBool):
        return bool(z3.is_true(model.eval(x.z, model_completion=True)))
    if isinstance(x, _np.ndarray):
        out = [model_value(model, e) for e in x.flat]
        return _np.array(out).reshape(x.shape).tolist()
    if isinstance(x, (list, tuple)):
        return [model_value(model, e) for e in x]
    if isinstance(x, dict):
        return {k: model_value(model, v) for k, v in x.items()}
    if isinstance(x, (_np.integer,)):
        return int(x)
    if isinstance(x, (_np.floating,)):
        return float(x)
    return x
