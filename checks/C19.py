"""C19 cell reduction recovers the same crystal from any supercell description.

Primitive crystals, integer supercell matrices (|det| 2..6) and atom orderings are enumerated; the NUMERICAL NOISE on every
coordinate of every atom of the supercell description is symbolic (solver reals, |noise| <= EPS = threshold/16 in cell
coordinates).  The real constructor (reduce, minlattice, center, gengroup, ...) runs on those terms: every tolerance
comparison is decided by z3 for all noise values at once (a comparison that noise could tip either way forks the path),
integer roundings are replaced by their value when the path condition pins it.  Obligations per path: atoms per species
and volume per atom of the primitive description, right-handed lattice that satisfies the reduction criteria of
minlattice, symmetry group of the primitive order, and atom positions within a small multiple of the noise of the
noise-free result."""
import itertools
import random
import sys

import numpy as np

from symx import run, loader

REPLAY = run.is_replay()
if REPLAY:
    loader.install_plain()
else:
    loader.install()

from onsager import crystal   # noqa: E402
from symx import core, harness, shim   # noqa: E402
from symx.core import ENG   # noqa: E402
from symx.harness import Src   # noqa: E402
sys.path.insert(0, __file__.rsplit('/', 1)[0])
import geom   # noqa: E402

EPS = 6.25e-10      # 1/16 of the constructor's default threshold (1e-8, cell coordinates of the SUPERCELL description): the constructor
                    # compares sums of up to ~8 noise terms (pair differences, rotated, rescaled by the reduction) with the threshold
POS_FACTOR = 16.0   # differences of reduced positions stay within POS_FACTOR*EPS*(cell multiplicity) of the noise-free ones

a = np.array


def _rot(axis, ang):
    axis = np.array(axis, dtype=float)
    axis /= np.linalg.norm(axis)
    K = np.array([[0, -axis[2], axis[1]], [axis[2], 0, -axis[0]], [-axis[1], axis[0], 0]])
    return np.eye(3) + np.sin(ang) * K + (1 - np.cos(ang)) * np.dot(K, K)


def primitives():
    s3 = np.sqrt(0.75)
    return {
        # name: (lattice (columns), basis list of lists)
        'sc': (np.eye(3), [[np.zeros(3)]]),
        'fcc': (0.5 * a([[0., 1., 1.], [1., 0., 1.], [1., 1., 0.]]), [[np.zeros(3)]]),
        'bcc': (0.5 * a([[-1., 1., 1.], [1., -1., 1.], [1., 1., -1.]]), [[np.zeros(3)]]),
        'hcp': (a([[0.5, 0.5, 0.], [-s3, s3, 0.], [0., 0., np.sqrt(8. / 3.)]]), [[a([1. / 3, 2. / 3, 0.25]), a([2. / 3, 1. / 3, 0.75])]]),
        'b2': (np.eye(3), [[np.zeros(3)], [a([0.5, 0.5, 0.5])]]),
        'square': (np.eye(2), [[np.zeros(2)]]),
        'honeycomb': (a([[1., 0.5], [0., s3]]), [[a([1. / 3, 1. / 3]), a([2. / 3, 2. / 3])]]),
        'rect-ab': (a([[1., 0.], [0., 1.25]]), [[np.zeros(2)], [a([0.5, 0.3])]]),
        'tetra-ab': (np.diag([1., 1., 1.5]), [[np.zeros(3)], [a([0.5, 0.5, 0.8])]]),
        # hexagonal cell in the 120-degree setting, in a rotated Cartesian frame: the ratio a1.a2/a1.a1 is -1/2 up to roundoff
        'hcp120-rot': (np.dot(_rot([-0.2414100744170262, -0.17943509829847798, -1.0584963489673935], 0.1227923854335301),
                              a([[1., -0.5, 0.], [0., s3, 0.], [0., 0., 1.633]])), [[a([1. / 3, 2. / 3, 0.25]), a([2. / 3, 1. / 3, 0.75])]]),
        # an atom ON the cell origin: noisy images of it straddle a cell face (coordinates 1-eps and 0+eps')
        'hcp-o': (a([[0.5, 0.5, 0.], [-s3, s3, 0.], [0., 0., np.sqrt(8. / 3.)]]), [[a([0., 0., 0.]), a([1. / 3, 2. / 3, 0.5])]]),
        'honeycomb-o': (a([[1., 0.5], [0., s3]]), [[a([0., 0.]), a([1. / 3, 1. / 3])]]),
        'mono-c1': (a([[1., 0., 0.25], [0., 1.25, 0.], [0., 0., 1.5]]), [[a([0.1, 0.2, 0.3])], [a([0.6, 0.15, 0.55])]]),
    }


SUPERS3 = {
    'd211': np.diag([2, 1, 1]), 'd121': np.diag([1, 2, 1]), 'd311': np.diag([3, 1, 1]), 'd221': np.diag([2, 2, 1]), 'd122': np.diag([1, 2, 2]),
    'r2': a([[1, 1, 0], [-1, 1, 0], [0, 0, 1]]), 's4': a([[2, 1, 0], [0, 2, 0], [0, 0, 1]]), 'conv4': a([[-1, 1, 1], [1, -1, 1], [1, 1, -1]]),
    'conv2': a([[0, 1, 1], [1, 0, 1], [1, 1, 0]]), 't6': a([[1, 2, 0], [0, 3, 0], [0, 0, 2]]), 'd231': np.diag([2, 3, 1]), 'k5': a([[2, 1, 0], [-1, 2, 0], [0, 0, 1]]),
    't3': a([[1, 0, 1], [0, 1, 1], [0, 0, 3]]),
    # a description whose reduced cell vectors have pairwise ratios a_i.a_j / a_i.a_i of exactly +-1/2 (hcp)
    'h4': a([[2, -1, 0], [-1, -2, 1], [-2, -1, 0]]),
}
SUPERS2 = {
    'd21': np.diag([2, 1]), 'd12': np.diag([1, 2]), 'd31': np.diag([3, 1]), 'd22': np.diag([2, 2]), 'r2': a([[1, 1], [-1, 1]]), 's4': a([[2, 1], [0, 2]]),
    'k5': a([[2, 1], [-1, 2]]), 't6': a([[2, 1], [0, 3]]),
}


def description(pname, sname, order, src, eps=None):
    """supercell description of a primitive crystal: lattice A.S, every atom of the primitive cell at all its images inside the
    supercell, in a shuffled order (order = seed; 0 keeps the construction order), each coordinate with its own noise term"""
    eps = EPS if eps is None else eps
    latt, basis = primitives()[pname]
    dim = latt.shape[0]
    S = (SUPERS3 if dim == 3 else SUPERS2)[sname]
    invS = np.linalg.inv(S)
    nd = abs(int(round(np.linalg.det(S))))
    out = []
    k = 0
    for atoms in basis:
        lst = []
        for b in atoms:
            seen = []
            for n in itertools.product(range(-7, 8), repeat=dim):
                u = np.dot(invS, b + a(n))
                u = u - np.floor(u + 1e-9)
                if not any(np.allclose(u - v, np.round(u - v), atol=1e-9) for v in seen):
                    seen.append(u)
            if len(seen) != nd:
                raise RuntimeError('harness error: %d images instead of %d' % (len(seen), nd))
            lst += seen
        if order:
            random.Random(1000 * order + len(out)).shuffle(lst)
        noisy = []
        for u in lst:
            d = src.reals('n%d' % k, dim, -eps, eps)
            k += 1
            noisy.append(np.array([ui + di for ui, di in zip(u, d)], dtype=object) if src.symbolic else u + np.asarray(d, dtype=float))
        out.append(noisy)
    return np.dot(latt, S), out, nd


_REF = {}


def reference(pname, sname, order, thr=None):
    """the same description without noise through the plain constructor, and the primitive crystal itself"""
    key = (pname, sname, order, thr)
    kw = {} if thr is None else {'threshold': thr}
    if key not in _REF:
        latt, basis = primitives()[pname]
        try:
            prim = crystal.Crystal(latt, [[u.copy() for u in l] for l in basis], **kw)
        except (ArithmeticError, RecursionError):
            prim = None

        class Z:   # zero noise source
            symbolic = False

            def reals(self, name, n, lo=None, hi=None):
                return np.zeros(n)
        sl, sb, nd = description(pname, sname, order, Z())
        try:
            ref = crystal.Crystal(sl, sb, **kw)
        except (ArithmeticError, RecursionError):      # the constructor's own failure: reported as a failed obligation below
            ref = None
        _REF[key] = (prim, ref, nd)
    return _REF[key]


def recover(pname, sname, order, thr=None):
    """thr: the constructor's threshold (None = default 1e-8); the noise bound is thr/16.  A large threshold (1e-4) lets noisy images
    of an atom on the origin straddle a cell face, which the fixed 1e-8 slack of incell hides at the default threshold"""
    def fn(src=None):
        src = src or Src()
        name = 'recover:%s:%s:%d%s' % (pname, sname, order, '' if thr is None else ':thr%g' % thr)
        eps = EPS if thr is None else thr / 16.
        kw = {} if thr is None else {'threshold': thr}
        prim, ref, nd = reference(pname, sname, order, thr)
        latt, basis, nd = description(pname, sname, order, src, eps)
        info = src.info(replayer='recover', extra={'prim': pname, 'super': sname, 'order': order, 'thr': thr})
        info['soft'] = True    # noise of 1e-9 next to coordinates of order one: a float replay may round a borderline model differently
        obs = []

        def ob(n, v):
            obs.append(('%s:%s' % (name, n), v, dict(info, sig='recover:' + n)))
        ob('noise-free-construction-succeeds', ref is not None and prim is not None)
        if ref is None or prim is None:
            return obs
        if src.symbolic:
            ENG.concretize_unique_ints = True
            with shim.symbolic_mode():
                try:
                    c = crystal.Crystal(latt, basis, **kw)
                except ArithmeticError:
                    c = None
        else:
            try:
                c = crystal.Crystal(latt, basis, **kw)
            except (ArithmeticError, RecursionError):
                c = None
        ob('construction-succeeds', c is not None)
        if c is None:
            return obs
        dim = c.dim
        L = np.array(c.lattice, dtype=float)
        ob('atoms-per-species', [len(l) for l in c.basis] == [len(l) for l in prim.basis])
        vol, pvol = abs(float(np.linalg.det(L))), abs(float(np.linalg.det(prim.lattice)))
        ob('volume-per-atom', abs(vol / max(1, c.N) - pvol / prim.N) <= 1e-9 * pvol)
        ob('right-handed', float(np.linalg.det(L)) > 0)
        asq = np.dot(L.T, L)
        red = all(asq[i, i] <= asq[j, j] + 1e-9 for i in range(dim) for j in range(i + 1, dim)) and \
            all(abs(asq[i, j]) <= 0.5 * asq[i, i] + 1e-9 for i in range(dim) for j in range(i + 1, dim))
        ob('lattice-reduced', red)
        ob('group-order', len(c.G) == len(prim.G))
        # same crystal as the noise-free reduction: same lattice, every atom within a small multiple of the noise (mod 1)
        same_l = L.shape == ref.lattice.shape and bool(np.allclose(L, ref.lattice, atol=1e-9))
        ob('lattice-equals-noise-free-result', same_l)
        if same_l and [len(l) for l in c.basis] == [len(l) for l in ref.basis]:
            # same crystal as the noise-free result up to the choice of origin and an inversion of the setting: every difference
            # between two atoms (species by species and across species) is, mod 1 and within a small multiple of the noise, a
            # difference of the noise-free result; or all of them are the negative of one
            tol = POS_FACTOR * eps * nd

            def diffs(basis_):
                out = {}
                for c1, l1 in enumerate(basis_):
                    for c2, l2 in enumerate(basis_):
                        if c2 < c1:
                            continue
                        out[(c1, c2)] = [[x - y for x, y in zip(u, v)] for i, u in enumerate(l1) for j, v in enumerate(l2) if (c1, i) != (c2, j)]
                return out
            dc, dr = diffs(c.basis), diffs(ref.basis)

            def near(d, e, sign):
                comp = [crystal.inhalf(np.array([x - sign * y + 0.0], dtype=object if src.symbolic else float))[0] for x, y in zip(d, e)]
                if src.symbolic:
                    return core.And(*[core.And(z <= tol, z >= -tol) for z in comp])
                return all(abs(float(z)) <= tol for z in comp)

            def all_match(sign):
                conds = []
                for key, lst in dc.items():
                    for d in lst:
                        alts = [near(d, e, sign) for e in dr[key]]
                        conds.append((core.Or(*alts) if src.symbolic else any(alts)) if alts else False)
                return (core.And(*conds) if src.symbolic else all(conds)) if conds else True
            both = (all_match(1.0), all_match(-1.0))
            ob('atom-differences-equal-noise-free-result-up-to-inversion', core.Or(*both) if src.symbolic else any(both))
        if src.symbolic:
            # reachability witness: a false claim about the noise that must come back violated on this path
            obs.append(('twin:%s' % name, src.inputs[sorted(src.inputs)[0]] <= eps / 2))
        return obs
    return fn


# (primitive, supercell, ordering)
QUICK = [('fcc', 'conv4', 0), ('fcc', 'd211', 1), ('bcc', 'conv2', 0), ('sc', 'r2', 1), ('sc', 'd311', 0), ('hcp', 'd211', 1), ('hcp', 'r2', 0),
         ('b2', 'd221', 1), ('b2', 't3', 0), ('square', 'r2', 0), ('square', 'k5', 1), ('square', 't6', 0), ('honeycomb', 'd21', 1),
         ('honeycomb', 'd31', 0), ('rect-ab', 's4', 1), ('tetra-ab', 'd122', 0), ('mono-c1', 'd211', 1), ('mono-c1', 's4', 0), ('hcp', 'h4', 0), ('hcp120-rot', 'd211', 0)]
THOROUGH = QUICK + [(p, s, o) for p in ('sc', 'fcc', 'bcc', 'hcp', 'b2', 'tetra-ab', 'mono-c1') for s in sorted(SUPERS3) for o in (0, 2)
                    if (p, s, o) not in QUICK] + \
    [(p, s, o) for p in ('square', 'honeycomb', 'rect-ab') for s in sorted(SUPERS2) for o in (0, 2) if (p, s, o) not in QUICK]


# cases with the constructor's threshold raised to 1e-4 (noise 6.25e-6): images of an atom on the origin then straddle cell faces and every
# sign pattern of their noise is a path of its own (2^k, k = number of face coordinates): beyond the budgets here, so the lists are
# empty and the regime is stated as outside the claim (seed C19c lives there)
LARGE_THR_Q = []
LARGE_THR_T = []


def sections(tier):
    S = run.Section
    secs = []
    for p, s, o in (QUICK if tier == 'quick' else THOROUGH):
        secs.append(S('recover:%s:%s:%d' % (p, s, o), recover(p, s, o), budget_s=170 if tier == 'quick' else 900, replayer='recover',
                      config='%s/%s' % (p, s), maxpaths=24, timeout_ms=20000))
    for p, s, o in (LARGE_THR_Q if tier == 'quick' else LARGE_THR_T):
        secs.append(S('recover:%s:%s:%d:thr0.0001' % (p, s, o), recover(p, s, o, 1e-4), budget_s=170 if tier == 'quick' else 900, replayer='recover',
                      config='%s/%s threshold 1e-4' % (p, s), maxpaths=96, timeout_ms=20000))
    return secs


def main():
    import warnings
    warnings.simplefilter('ignore')
    if REPLAY:
        run.replay_main('C19', {'recover': lambda rec: harness.run_laws_concrete(
            recover(rec['extra']['prim'], rec['extra']['super'], rec['extra']['order'], rec['extra'].get('thr')), rec)})
    C = crystal.Crystal
    chk = run.Check(
        'C19',
        functions=[loader.func_hash(f) for f in (C.__init__, C.reduce, C.minlattice, C.remapbasis, C.center, C.gengroup, C.genpoint,
                                                 C.genWyckoffsets, crystal.maptranslation, crystal.incell, crystal.inhalf)],
        assumptions=[
            'primitive crystals (%d), supercell matrices (|det| 2..6) and atom orderings are enumerated; the universally quantified input is the '
            'noise: one solver real per coordinate of every atom of the supercell description, |noise| <= %g (1/16 of the default '
            'threshold 1e-8; at threshold/4 the 2x1x1 description of hcp already loses symmetry operations: observation in DESIGN 6.4)' % (len(primitives()), EPS),
            'real-number model: the constructor\'s float arithmetic is exact rational arithmetic here (DESIGN 1.7); a counterexample whose float '
            'replay does not reproduce is reported as inconclusive (soft), never as a violation',
            'integer roundings (np.around(...).astype(int)) are replaced by their value when two solver queries show that the path condition '
            'leaves exactly one; otherwise they stay symbolic / fork',
            '"reduced" means the criteria minlattice documents: vectors ordered by length, |a_i.a_j| <= |a_i|^2/2 for i<j, right-handed',
        ],
        explanation='The real Crystal constructor runs on noisy supercell descriptions whose noise is symbolic; z3 decides every tolerance '
                    'comparison for all noise values; the recovered cell is compared with the primitive description and the noise-free result.',
        bounds='quick: %d cases; thorough: %d cases; noise bound %g; position tolerance %g*noise*multiplicity' % (len(QUICK), len(THOROUGH), EPS, POS_FACTOR))
    chk.run(sections(chk.tier))
    chk.finish()


if __name__ == '__main__':
    main()
