import numpy as np, z3, time
import symx
from symx import ENG, Sym, SymBool, Int, Real
from onsager import crystal
exec(open("p11.py").read().split("crys = crystal.Crystal.HCP")[0].split("from onsager import crystal")[1])
from onsager import crystal
class NP2(NP):
    def allclose(self, a, b, rtol=1e-5, atol=1e-8):
        a = np.asarray(a, dtype=object); b = np.broadcast_to(np.asarray(b, dtype=object), a.shape)
        conds = []
        for x, y in zip(a.flat, b.flat):
            d = x - y
            if isinstance(d, Sym): conds.append((abs(d) <= atol + rtol * abs(y)).z)
            elif not abs(d) <= atol + rtol*abs(y): return False
        return SymBool(z3.And(*conds)) if conds else True
    def any(self, a, *args, **k):
        if isinstance(a, list) and any(isinstance(x, SymBool) for x in a):
            return SymBool(z3.Or(*[x.z if isinstance(x, SymBool) else z3.BoolVal(bool(x)) for x in a]))
        return np.any(a, *args, **k)
crystal.np = NP2()
crys = crystal.Crystal(np.array([[1.,0.],[0.,1.5]]), [np.array([0.,0.])])
print(len(crys.G))
G = list(crys.G)
def run():
    u = SymArray([Real('u0'), Real('u1')])
    for x in u: ENG.assume((x >= 0) & (x <= 1 - 1e-3))
    # guard band: u not within (1e-8,1e-4) of special coordinates 0, 1/2
    for x in u:
        for s in (0.0, 0.5, 1.0):
            d = abs(x - s); ENG.assume((d <= 1e-10) | (d >= 1e-4))
    lis = crys.Wyckoffpos(u)
    obs = []
    # no duplicates (mod 1) and closed: each g.u is close to exactly one element
    zero = np.zeros(2, dtype=int)
    for gi, g in enumerate(G):
        gu = crystal.Crystal.g_vect(g, zero, u)[1]
        hits = []
        for w in lis:
            d = [crystal.inhalf(np.array([gu[k] - w[k]], dtype=object))[0] for k in range(2)]
            hits.append(z3.And(*[(abs(dd) <= 1e-7).z for dd in d]))
        obs.append(('exactly-one g%d' % gi, SymBool(z3.PbEq([(h, 1) for h in hits], 1))))
    return obs
t = time.time()
npaths, res = ENG.explore(run, maxpaths=300)
from collections import Counter
print(npaths, Counter(r[0] for r in res), 'queries', ENG.nq, 'solver %.1f' % ENG.tq, 'wall %.1f' % (time.time()-t))
print([r[1] for r in res if r[0] != 'ok'][:5])
