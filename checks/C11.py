"""C11 interstitial derivative outputs: populated elastic dipoles (this check decides the dipole part).

Interstitial.siteDipoles / jumpDipoles (with ProjectTensorBasis and the site / jump symmetric-tensor bases
built at construction) run on ARBITRARY, NON-SYMMETRIC symbolic input dipoles (d*d reals per class).  For
every site and every jump the populated dipole must equal g P(dipole) g^T for EVERY listed operation g that
carries the representative there, where P is the harness' independent projector: symmetrise, then average
over the stabiliser of the representative site / transition (operations mapping the jump onto itself or onto
its reverse).  QF_LRA, all dipole values."""
import itertools
import sys

import numpy as np

from symx import run, loader

REPLAY = run.is_replay()
if REPLAY:
    loader.install_plain()
else:
    loader.install()

from onsager import crystal, OnsagerCalc   # noqa: E402
from symx import core, harness, shim   # noqa: E402
from symx.harness import Src   # noqa: E402
sys.path.insert(0, __file__.rsplit('/', 1)[0])
import geom   # noqa: E402

# name: (crystal, mobile chem, jump cutoff)
CASES = {'hcpoct': ('hcpot', 1, 0.7), 'bccoct': ('bccoct', 1, 0.6), 'fccint': ('fccint', 1, 0.5), 'rumpled': ('rumpled', 0, 1.1),
         'rect2': ('rect2', 0, 0.9), 'mono': ('mono', 1, 1.2), 'honeycomb': ('honeycomb', 0, 0.6), 'wurtzite': ('wurtzite', 1, 1.05)}
_C = {}


def build(case):
    if case not in _C and case in XCASES:
        import inter
        crys, calc, jn = inter.get_calc(case)
        _C[case] = (crys, calc.chem, calc)
    if case not in _C:
        cname, chem, cut = CASES[case]
        crys = geom.get_crystal(cname)
        jn = crys.jumpnetwork(chem, cut)
        _C[case] = (crys, chem, OnsagerCalc.Interstitial(crys, chem, crys.sitelist(chem), jn))
    return _C[case]


def dipoles(case):
    def fn(src=None):
        src = src or Src()
        crys, chem, calc = build(case)
        dim = crys.dim
        name = 'dipoles:' + case
        sym = src.symbolic
        G = geom.sorted_ops(crys)
        sdip = [src.reals('P%d' % w, (dim, dim), -1, 1) for w in range(len(calc.sitelist))]
        tdip = [src.reals('PT%d' % t, (dim, dim), -1, 1) for t in range(len(calc.jumpnetwork))]
        with shim.symbolic_mode():
            out_s = calc.siteDipoles(sdip)
            out_t = calc.jumpDipoles(tdip)
        obs = []
        info = src.info(replayer='dipoles', extra={'case': case})
        tol = 1e-9

        def ob(n, val):
            obs.append(('%s:%s' % (name, n), val, dict(info, sig='dipoles:' + n.split('@')[0])))

        def rot(g, T):
            return np.dot(g.cartrot, np.dot(T, g.cartrot.T))
        for w, sites in enumerate(calc.sitelist):
            rep = sites[0]
            stab = [g for g in G if g.indexmap[chem][rep] == rep]
            S = 0.5 * (sdip[w] + sdip[w].T)
            Pref = sum((rot(g, S) for g in stab), np.zeros((dim, dim))) * (1.0 / len(stab))
            ob('site-representative@%d' % w, harness.close(np.asarray(out_s[rep], dtype=object).ravel(), np.asarray(Pref, dtype=object).ravel(), tol))
            conds = []
            for s in sites:
                for g in G:
                    if g.indexmap[chem][rep] == s:
                        conds.append(harness.close(np.asarray(out_s[s], dtype=object).ravel(), np.asarray(rot(g, Pref), dtype=object).ravel(), tol))
            ob('site-carried@%d' % w, core.And(*conds) if sym else all(conds))
        for t, jumps in enumerate(calc.jumpnetwork):
            (i0, j0), dx0 = jumps[0]
            def maps(g, i, j, dx):
                gdx = np.dot(g.cartrot, dx0)
                fwd = g.indexmap[chem][i0] == i and g.indexmap[chem][j0] == j and np.allclose(gdx, dx, atol=1e-7)
                rev = g.indexmap[chem][i0] == j and g.indexmap[chem][j0] == i and np.allclose(gdx, -dx, atol=1e-7)
                return fwd or rev
            stab = [g for g in G if maps(g, i0, j0, dx0)]
            S = 0.5 * (tdip[t] + tdip[t].T)
            Pref = sum((rot(g, S) for g in stab), np.zeros((dim, dim))) * (1.0 / len(stab))
            ob('jump-representative@%d' % t, harness.close(np.asarray(out_t[t][0], dtype=object).ravel(), np.asarray(Pref, dtype=object).ravel(), tol))
            conds = []
            for k, ((i, j), dx) in enumerate(jumps):
                for g in G:
                    if maps(g, i, j, dx):
                        conds.append(harness.close(np.asarray(out_t[t][k], dtype=object).ravel(), np.asarray(rot(g, Pref), dtype=object).ravel(), tol))
            ob('jump-carried@%d' % t, core.And(*conds) if sym else all(conds))
            ob('jump-count@%d' % t, len(out_t[t]) == len(jumps))
        if sym:
            obs.append(('twin:%s' % name, harness.close(np.asarray(out_s[0], dtype=object).ravel(), np.asarray(out_s[0], dtype=object).ravel() + 1e-6, tol)))
        return obs
    return fn


# ---- elastodiffusion is the strain derivative of the diffusivity ------------------------------------------------------------
EGRID = [0.0, 0.25, -0.5, 0.75, 0.5, -0.25, 1.0, 0.125, -0.125]
TGRID = [1.0, 1.5, 0.75, 1.25, 2.0, 1.75, 0.5, 1.125, 1.625, 0.875]


def strain_derivative(case, k):
    """energies / prefactors on a fixed grid (instance k), ALL site and transition dipole components symbolic.  The returned
    elastodiffusion tensor must equal the first-order perturbation of the exact diffusivity D = D0 + b^T omega^+ b under
    E -> E - P:eps (rates W' = W (P_T - P_i), rho' = rho (P_i - <P>)) plus the geometric term of dx -> (1 + eps) dx:
        dD = dD0 + sum_i (b_i' (x) G_i + G_i (x) b_i') - sum_ij G_i omega_ij' G_j + 1/2 (delta D + ...),   G = omega^+ b,
    assembled by the harness in site space with its own dense solve (numpy) and the code's populated dipoles (decided
    separately above).  Linear in the dipoles: QF_LRA for all dipole values."""
    def fn(src=None):
        src = src or Src()
        crys, chem, calc = build(case)
        dim, N = crys.dim, calc.N
        name = 'strain:%s:%d' % (case, k)
        sym = src.symbolic
        nw, nt = len(calc.sitelist), len(calc.jumpnetwork)
        E = np.array([EGRID[(w + k) % len(EGRID)] for w in range(nw)])
        T = np.array([TGRID[(t + 2 * k) % len(TGRID)] for t in range(nt)])
        pre = np.array([1.0 + 0.25 * ((w + k) % 3) for w in range(nw)])
        preT = np.array([1.0 + 0.5 * ((t + k) % 2) for t in range(nt)])
        sdip = [src.reals('P%d' % w, (dim, dim), -1, 1) for w in range(nw)]
        tdip = [src.reals('PT%d' % t, (dim, dim), -1, 1) for t in range(nt)]
        with shim.symbolic_mode():
            D0c, Dp = calc.elastodiffusion(pre, E, sdip, preT, T, tdip)
            P = calc.siteDipoles(sdip)
            PT = calc.jumpDipoles(tdip)
        # ---- reference (site space, plain numpy for the dipole-independent part)
        wgt = np.array([pre[calc.invmap[i]] * np.exp(-E[calc.invmap[i]]) for i in range(N)])
        rho = wgt / wgt.sum()
        sq = np.sqrt(rho)
        om = np.zeros((N, N))
        b = np.zeros((N, dim))
        D0 = np.zeros((dim, dim))
        jumps = []
        for t, jl in enumerate(calc.jumpnetwork):
            for n, ((i, j), dx) in enumerate(jl):
                W = preT[t] * np.exp(-T[t]) / wgt[i]
                jumps.append((i, j, np.asarray(dx, dtype=float), W, t, n))
                om[i, j] += sq[i] * W / sq[j]
                om[i, i] -= W
                b[i] += sq[i] * W * np.asarray(dx, dtype=float)
                D0 += 0.5 * np.outer(dx, dx) * rho[i] * W
        G = np.dot(np.linalg.pinv(om, rcond=1e-11), b)           # N x dim
        D = D0 + np.dot(b.T, G)
        Pbar = sum(rho[i] * np.asarray(P[i], dtype=object) for i in range(N))
        ref = np.zeros((dim,) * 4, dtype=object)
        bp = [[np.zeros((dim, dim), dtype=object) for a in range(dim)] for i in range(N)]    # b_i,a' as a (c,d) tensor
        for (i, j, dx, W, t, n) in jumps:
            Pt = np.asarray(PT[t][n], dtype=object)
            Pi, Pj = np.asarray(P[i], dtype=object), np.asarray(P[j], dtype=object)
            for a in range(dim):
                for bb in range(dim):
                    ref[a, bb] = ref[a, bb] + (0.5 * dx[a] * dx[bb] * rho[i] * W) * (Pt - Pbar)
                bp[i][a] = bp[i][a] + (sq[i] * W * dx[a]) * (Pt - 0.5 * (Pi + Pbar))
            dom = (Pt - 0.5 * (Pi + Pj)) * (sq[i] * W / sq[j]) if i != j else None
            for a in range(dim):
                for bb in range(dim):
                    # - G_i,a omega_ij' G_j,b  (off-diagonal part) and - G_i,a omega_ii' G_i,b (escape part: omega_ii' = -W (P_T - P_i))
                    if i != j:
                        ref[a, bb] = ref[a, bb] - (G[i, a] * G[j, bb]) * dom
                    else:
                        ref[a, bb] = ref[a, bb] - (G[i, a] * G[i, bb] * W) * (Pt - Pi)
                    ref[a, bb] = ref[a, bb] + (G[i, a] * G[i, bb] * W) * (Pt - Pi)
        for i in range(N):
            for a in range(dim):
                for bb in range(dim):
                    ref[a, bb] = ref[a, bb] + bp[i][a] * G[i, bb] + bp[i][bb] * G[i, a]
        for a, bb, c, d in itertools.product(range(dim), repeat=4):
            geo = 0.5 * ((a == c) * D[bb, d] + (a == d) * D[bb, c] + (bb == c) * D[a, d] + (bb == d) * D[a, c])
            ref[a, bb][c, d] = ref[a, bb][c, d] + geo
        obs = []
        info = src.info(replayer='strain', extra={'case': case, 'k': k})
        scale = max(float(np.abs(D).max()), 1e-12)
        tol = 1e-8 * scale
        for a, bb in itertools.product(range(dim), repeat=2):
            for c in range(dim):
                cond = harness.close(np.asarray(Dp[a, bb][c], dtype=object).ravel(), np.asarray(ref[a, bb][c], dtype=object).ravel(), tol)
                obs.append(('%s:elastodiffusion-is-strain-derivative@%d%d%d' % (name, a, bb, c), cond, dict(info, sig='strain:derivative')))
        obs.append(('%s:D-is-exact' % name, bool(np.abs(np.asarray(D0c, dtype=float) - D).max() <= 1e-9 * scale), dict(info, sig='strain:D')))
        if sym:
            obs.append(('twin:%s' % name, harness.close(np.asarray(Dp[0, 0], dtype=object).ravel(), np.asarray(ref[0, 0], dtype=object).ravel() + 1e-6, tol)))
        return obs
    return fn


def barrier(cname):
    """first sentence of the property: diffusivity(CalcDeriv=True) returns (D, Db) with Db = -dD/d(beta) (energies beta*E).
    ALL energies symbolic (monomial algebra; E and y = exp(E/2) enter as independent reals: an identity in both holds in
    particular on the curve y = exp(E/2)); the code's own bias solution is lifted to site space and the returned Db must equal
    minus the first-order perturbation of D = D0 + b^T omega^+ b under beta -> beta (1 + t):
        W' = -W (E_T - E_i), rho' = -rho (E_i - <E>),  dD = dD0 + sum_i (b_i' (x) G_i + G_i (x) b_i') - sum_ij G_i omega_ij' G_j."""
    def fn():
        import inter
        from symx.core import ENG, Sym
        crys, calc, jn = inter.get_calc(cname)
        N, dim = calc.N, calc.dim
        name = 'barrier:' + cname
        inp = inter.Inputs(calc, sym_pre=False)
        (D, Db), cap = inter.run_diffusivity(calc, inp, CalcDeriv=True)
        sq, _ = inter.code_sqrt_rho(calc, inp)
        w_, rates = inter.site_weights(calc, inp)
        Z = sum(w_)
        rho = [x / Z for x in w_]
        Es = [inp.E[calc.invmap[i]] for i in range(N)]
        Eave = sum(rho[i] * Es[i] for i in range(N))
        G = np.zeros((N, dim), dtype=object)
        for a, va in enumerate(calc.VectorBasis):
            for i in range(N):
                G[i] = G[i] + cap['gamma'][a] * va[i]
        dD = np.zeros((dim, dim), dtype=object)
        bp = np.zeros((N, dim), dtype=object)
        for (i, j, dx, W, t) in rates:
            ET = inp.T[t]
            dD = dD - 0.5 * np.outer(dx, dx) * (rho[i] * W * (ET - Eave))
            bp[i] = bp[i] - (sq[i] * W * (ET - 0.5 * (Es[i] + Eave))) * dx
            if i != j:
                dom = -(sq[i] * W / sq[j]) * (ET - 0.5 * (Es[i] + Es[j]))
                dD = dD - np.outer(G[i], G[j]) * dom
            # escape part: omega_ii' = +W (E_T - E_i) summed over the jumps leaving i
            dD = dD - np.outer(G[i], G[i]) * (W * (ET - Es[i]))
        for i in range(N):
            dD = dD + np.outer(bp[i], G[i]) + np.outer(G[i], bp[i])
        obs = []
        info = {'inputs': inp.inputs, 'replayer': 'barrier', 'extra': {'crystal': cname},
                'probe': [inter.concrete_instance(inp, k) for k in (0, 3)]}
        for a in range(dim):
            for c in range(dim):
                obs.append(('%s:Db%d%d' % (name, a, c), Db[a, c] == -dD[a, c], dict(info, sig='barrier:Db')))
        obs.append(('twin:%s' % name, Db[0, 0] == -dD[0, 0] * (1 + 1e-6), {'hyp': inter.concrete_instance(inp), 'timeout_ms': 20000}))
        return obs
    return fn


def replay_barrier(rec):
    """-dD/d(beta) by central differences of the real code (beta-scaling of all energies) against the returned Db"""
    import inter
    cname = rec['extra']['crystal']
    crys, calc, jn = inter.get_calc(cname)
    inp = inter.Inputs(calc, vals=rec['inputs'])
    pre, E, preT, ET = inp.arrays(symbolic=False)
    D, Db = calc.diffusivity(pre, E, preT, ET, CalcDeriv=True)
    h = 1e-5
    Dp_ = calc.diffusivity(pre, E * (1 + h), preT, ET * (1 + h))
    Dm_ = calc.diffusivity(pre, E * (1 - h), preT, ET * (1 - h))
    fd = -(Dp_ - Dm_) / (2 * h)
    sc = max(np.abs(fd).max(), np.abs(D).max(), 1e-300)
    if np.abs(fd - Db).max() > 1e-6 * sc:
        return True, 'Db=%s differs from -dD/dbeta=%s (finite difference) at E=%s ET=%s' % (Db.tolist(), fd.tolist(), list(E), list(ET))
    return False, 'Db agrees with -dD/dbeta (rel %.1e)' % (np.abs(fd - Db).max() / sc)


XCASES = ['X1s', 'X1', 'X4r', 'X2', 'X5', 'X3', 'X1si', 'X2b']
QUICK = ['hcpoct', 'bccoct', 'rumpled', 'rect2', 'mono', 'honeycomb']
THOROUGH = QUICK + ['fccint', 'wurtzite']


def sections(tier):
    S = run.Section
    secs = [S('dipoles:' + c, dipoles(c), budget_s=175 if tier == 'quick' else 1200, replayer='dipoles', config=c, maxpaths=4, timeout_ms=60000)
            for c in (QUICK if tier == 'quick' else THOROUGH)]
    plan = [('X1s', 0), ('X4r', 0), ('X2', 1), ('X5', 0), ('X3', 0), ('hcpoct', 0), ('rect2', 1), ('mono', 0), ('bccoct', 1)] if tier == 'quick' else \
           [(c, k) for c in XCASES + QUICK + ['fccint', 'wurtzite'] for k in range(3)]
    for c, k in plan:
        secs.append(S('strain:%s:%d' % (c, k), strain_derivative(c, k), budget_s=175 if tier == 'quick' else 1200, replayer='strain',
                      config=c, maxpaths=4, timeout_ms=60000))
    for c in (['X1s', 'X1', 'X4r', 'X2', 'X3', 'X1si'] if tier == 'quick' else ['X1s', 'X1', 'X4r', 'X2', 'X3', 'X1si', 'X2b', 'X5']):
        secs.append(S('barrier:' + c, barrier(c), budget_s=175 if tier == 'quick' else 1200, replayer='barrier', config=c, maxpaths=16,
                      timeout_ms=60000 if tier == 'quick' else 120000))
    return secs


def main():
    import warnings
    warnings.simplefilter('ignore')
    if REPLAY:
        run.replay_main('C11', {'dipoles': lambda rec: harness.run_laws_concrete(dipoles(rec['extra']['case']), rec),
                                'barrier': replay_barrier,
                                'strain': lambda rec: harness.run_laws_concrete(strain_derivative(rec['extra']['case'], rec['extra']['k']), rec)})
    I = OnsagerCalc.Interstitial
    chk = run.Check(
        'C11',
        functions=[loader.func_hash(f) for f in (I.siteDipoles, I.jumpDipoles, I.generateSiteGroupOps, I.generateJumpGroupOps,
                                                 I.generateSiteSymmTensorBasis, I.generateJumpSymmTensorBasis, crystal.ProjectTensorBasis,
                                                 crystal.SymmTensorBasis, crystal.CombineTensorBasis, crystal.Crystal.g_tensor)],
        assumptions=[
            'decides the THIRD sentence of the property (populated dipoles are symmetric-projected on the representative and carried to every '
            'equivalent site / jump by the corresponding operation) for arbitrary non-symmetric symbolic input dipoles in [-1,1]',
            'the first two sentences (activation barrier == -dD/d(beta); elastodiffusion == strain derivative of D) are NOT decided: they need '
            'derivatives of a rational function of the rates through the bias solve; attempted in the design, not built',
            'crystals / networks enumerated (HCP and BCC octahedral/tetrahedral networks, rumpled, 2-D cells, monoclinic); equalities to 1e-9',
        ],
        explanation='Real siteDipoles/jumpDipoles on symbolic dipoles compared with an independent stabiliser-average projector carried by every '
                    'operation that maps the representative to the member (QF_LRA).',
        bounds='quick: %s; thorough: %s' % (QUICK, THOROUGH))
    chk.run(sections(chk.tier))
    chk.finish()


if __name__ == '__main__':
    main()
