import numpy as np, z3, time, itertools
import symx
from symx import ENG, Sym, SymBool, Int, Real
from onsager import crystal, OnsagerCalc, crystalStars as stars
class NP:
    def __getattr__(self, k): return getattr(np, k)
    def zeros(self, shape, dtype=float):
        if dtype in (int, bool): return np.zeros(shape, dtype=dtype)
        a = np.empty(shape, dtype=object); a.fill(0); return a
OnsagerCalc.np = NP()
tol = 1e-9
# ---- C11(a): siteDipoles / jumpDipoles on HCP o+t, arbitrary non-symmetric dipoles
hcp = crystal.Crystal.HCP(1.0)
hcpi = hcp.addbasis(hcp.Wyckoffpos(np.array([0.,0.,0.5])) + hcp.Wyckoffpos(np.array([1/3,2/3,5/8])))
chem = 1
sl = hcpi.sitelist(chem); jn = hcpi.jumpnetwork(chem, 0.7)
D = OnsagerCalc.Interstitial(hcpi, chem, sl, jn)
def close(a, b):
    a = np.asarray(a, dtype=object); b = np.asarray(b, dtype=object)
    return z3.And(*[z3.And((x - y <= tol).z, (x - y >= -tol).z) if isinstance(x - y, Sym) else z3.BoolVal(abs(x - y) <= tol) for x, y in zip(a.flat, b.flat)])
def run_dip():
    dips = []
    for w in range(len(sl)):
        P = np.empty((3,3), dtype=object)
        for i in range(3):
            for j in range(3):
                P[i,j] = Real('P%d_%d%d' % (w, i, j)); ENG.assume((P[i,j] <= 1) & (P[i,j] >= -1))
        dips.append(P)
    out = D.siteDipoles(dips)
    obs = []
    for w, sites in enumerate(sl):
        rep = sites[0]
        stab = [g for g in hcpi.G if g.indexmap[chem][rep] == rep]
        S = 0.5 * (dips[w] + dips[w].T)
        Pref = sum(np.dot(g.cartrot, np.dot(S, g.cartrot.T)) for g in stab) / len(stab)
        for s in sites:
            alts = []
            for g in hcpi.G:
                if g.indexmap[chem][rep] == s:
                    alts.append(close(out[s], np.dot(g.cartrot, np.dot(Pref, g.cartrot.T))))
            obs.append(('dipole site %d' % s, SymBool(z3.Or(*alts))))
    return obs
t = time.time()
npaths, res = ENG.explore(run_dip, maxpaths=10)
from collections import Counter
print('C11a', npaths, Counter(r[0] for r in res), 'queries', ENG.nq, 'wall %.1f' % (time.time()-t))

# ---- C25: GFexpansion contraction vs direct assembly on FCC Nthermo=1
fcc = crystal.Crystal.FCC(1.0)
slf = fcc.sitelist(0); jnf = fcc.jumpnetwork(0, 0.75)
dv = OnsagerCalc.VacancyMediated(fcc, 0, slf, jnf, 1)
vk, ks, GFs = dv.vkinetic, dv.kinetic, dv.GFstarset
def run_gf():
    g = np.array([Real('g%d' % k) for k in range(GFs.Nstars)], dtype=object)
    for x in g: ENG.assume((x <= 1) & (x >= -1))
    G0 = np.dot(dv.GFexpansion, g)
    conds = []
    for i in range(vk.Nvstars):
        for j in range(vk.Nvstars):
            direct = 0
            for si, vi in zip(vk.vecpos[i], vk.vecvec[i]):
                for sj, vj in zip(vk.vecpos[j], vk.vecvec[j]):
                    try: ds = ks.states[sj] ^ ks.states[si]
                    except ArithmeticError: continue
                    direct = direct + float(np.dot(vi, vj)) * g[GFs.starindex(ds)]
            dd = G0[i, j] - direct
            conds.append(z3.And((dd <= tol).z, (dd >= -tol).z) if isinstance(dd, Sym) else z3.BoolVal(abs(dd) <= tol))
    return [('GFexpansion', SymBool(z3.And(*conds)))]
t = time.time(); q0 = ENG.nq
npaths, res = ENG.explore(run_gf, maxpaths=10)
print('C25', npaths, Counter(r[0] for r in res), 'queries', ENG.nq - q0, 'wall %.1f' % (time.time()-t))
