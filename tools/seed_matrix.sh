#!/bin/sh
# seed_matrix.sh : run every seeded change against its property's quick check, five scratch worktrees of /repo HEAD in
# parallel (ONSAGER_REPO), append to seeded/RESULTS.tsv.  /repo itself is never modified.
cd /verif
HEAD=$(git -C /repo rev-parse --short HEAD)
ls seeded | grep -v RESULTS | while read s; do grep -q "\"retired\": true" seeded/$s/meta.json || echo $s; done > /tmp/seedlist.txt
n=0
for w in dev dev2 dev3 dev4 dev5; do
  WT=/tmp/wt/$w
  [ -d $WT ] || git -C /repo worktree add -q --detach $WT HEAD
  git -C $WT checkout -q -- . ; git -C $WT checkout -q --detach $HEAD
  ( awk "NR % 5 == $n" /tmp/seedlist.txt | while read s; do
      out=$(DEVWT=$WT tools/seed_dev.sh $s 2>&1 | head -1)
      echo "$out	base=$HEAD" >> seeded/RESULTS.tsv
    done ) &
  n=$((n+1))
done
wait
