"""Contracts for the numerical environment (DESIGN 1.4): exp/log monomial algebra, sqrt,
linear solves, pseudo-inverse, memoised uninterpreted functions."""
import math
from fractions import Fraction

import numpy as _np
import z3

from . import core
from .core import ENG, Sym, Unsupported


# ---- log-variables --------------------------------------------------------------------
def logvar(name):
    """symbolic real E (an energy / log-prefactor); y_E = exp(E/2) > 0 is its monomial variable"""
    E = z3.Real(name)
    y = z3.Real('y_' + name)
    # exp is strictly increasing: order and equality of the log-variables and of their monomial variables agree (without this a
    # branch on energies, e.g. allclose(E, E[0]), is feasible for the solver although the y values are pinned apart)
    import os as _os
    for n2, (E2, y2) in (ENG.logv.items() if not _os.environ.get('VERIF_NO_MONO') else []):
        if n2 != name:
            ENG.assumes.append(z3.And((E < E2) == (y < y2), (E == E2) == (y == y2)))
    if not _os.environ.get('VERIF_NO_MONO'):
        ENG.assumes.append(z3.And((E < 0) == (y < 1), (E > 0) == (y > 1)))
    ENG.logv[name] = (E, y)
    ENG.assumes.append(y > 0)
    return Sym(E, {'lin': (Fraction(0), {name: Fraction(1)})})


def positive(name):
    """symbolic positive real p = exp(L): returned as the monomial y_L^2 (log(p) = L)"""
    logvar(name)
    return mono_sym((Fraction(1), {name: 2}))


def mono_sym(m):
    coef, pw = m
    z = z3.RealVal(str(coef))
    num = None
    den = None
    for n in sorted(pw):
        y = ENG.logv[n][1]
        p = pw[n]
        for _ in range(abs(p)):
            if p > 0:
                num = y if num is None else num * y
            else:
                den = y if den is None else den * y
    if num is not None:
        z = num if coef == 1 else z * num
    if den is not None:
        z = z / den
    return Sym(z, {'mono': (coef, dict(pw))})


def sym_exp(x):
    lin = x.meta.get('lin') if x.meta else None
    if lin is None:
        v = core._numval(z3.simplify(x.z))
        if v is not None and v == 0:
            return Sym(z3.RealVal(1), {'mono': (Fraction(1), {})})
        if ENG.uf_mode:
            return uf1('exp', x, positive_out=True)
        raise Unsupported('exp of a term that is not a linear form in log-variables: %s' % core._short(x.z, 80))
    const, d = lin
    if const != 0:
        raise Unsupported('exp with non-zero constant part %s' % const)
    pw = {}
    for n, c in d.items():
        p = 2 * c
        if p.denominator != 1:
            raise Unsupported('exp coefficient %s of %s is not a half-integer' % (c, n))
        pw[n] = int(p)
    return mono_sym((Fraction(1), pw))


def sym_log(x):
    m = x.meta.get('mono') if x.meta else None
    if m is None:
        if ENG.uf_mode:
            return uf1('log', x)
        raise Unsupported('log of a non-monomial term: %s' % core._short(x.z, 80))
    coef, pw = m
    if coef != 1:
        raise Unsupported('log of monomial with coefficient %s' % coef)
    z = z3.RealVal(0)
    d = {}
    for n, p in pw.items():
        c = Fraction(p, 2)
        z = z + z3.RealVal(str(c)) * ENG.logv[n][0]
        d[n] = c
    return Sym(z3.simplify(z), {'lin': (Fraction(0), d)})


def _sqrt_fraction(c):
    """exact rational sqrt or None"""
    n, d = c.numerator, c.denominator
    rn, rd = math.isqrt(n), math.isqrt(d)
    if rn * rn == n and rd * rd == d:
        return Fraction(rn, rd)
    return None


def _sqrt_mono(m):
    coef, pw = m
    rc = _sqrt_fraction(coef)
    if rc is None or any(p % 2 for p in pw.values()):
        return None
    return (rc, {n: p // 2 for n, p in pw.items()})


def _sqrt_generic(x):
    key = x.z.get_id()
    if key in ENG.sqrt_memo:
        return ENG.sqrt_memo[key][1]
    s = ENG.fresh_real('sqrt')
    a = z3.ToReal(x.z) if x.isint else x.z
    # the defining equation of a square root is kept with the input assumptions (never sliced away)
    ENG.assumes.append(z3.And(s >= 0, s * s == a))
    r = Sym(s)
    ENG.sqrt_memo[key] = (x, r)   # keep x alive so the ast id stays unique
    return r


def sym_sqrt(x):
    meta = x.meta or {}
    v = core._numval(z3.simplify(x.z)) if not meta else None
    if v is not None:
        r = _sqrt_fraction(Fraction(v)) if v >= 0 else None
        if r is not None:
            return Sym(z3.RealVal(str(r)))
        if v < 0:
            raise Unsupported('sqrt of negative constant')
        if ENG.exact_sqrt_consts:
            # exact algebraic definition (one memoised unknown per constant): q >= 0, q*q == v
            key = ('sqrtc-exact', str(v))
            if key in ENG.uf_memo:
                return ENG.uf_memo[key]
            q = ENG.fresh_real('sqrtc')
            ENG.assumes.append(z3.And(q >= 0, q * q == z3.RealVal(str(Fraction(v)))))
            ENG.uf_memo[key] = Sym(q)
            return ENG.uf_memo[key]
        # irrational constant: rational enclosure
        s = ENG.fresh_real('sqrtc')
        f = Fraction(math.sqrt(float(v)))
        eps = Fraction(1, 2 ** 48)
        ENG.axioms.append(z3.And(s >= z3.RealVal(str(f * (1 - eps))), s <= z3.RealVal(str(f * (1 + eps)))))
        return Sym(s)
    if ENG.uf_mode:
        return uf1('sqrt', x, nonneg_out=True)
    if 'mono' in meta:
        sm = _sqrt_mono(meta['mono'])
        if sm is not None:
            return mono_sym(sm)
    if 'fact' in meta:
        m, rest, k = meta['fact']
        sm = _sqrt_mono(m)
        if sm is not None:
            q = sym_sqrt(rest)
            ms = mono_sym(sm)
            return ms * q if k == 1 else ms / q
    if 'sq' in meta:
        xx, c = meta['sq']
        r, _ = ENG.check(xx.z < 0)
        if r == 'unsat':
            rc = _sqrt_fraction(c)
            if rc is not None:
                return xx * rc
            s = ENG.fresh_real('sqrt')
            f = Fraction(math.sqrt(float(c)))
            eps = Fraction(1, 2 ** 48)
            ENG.axioms.append(z3.And(s >= z3.RealVal(str(f * (1 - eps))) * xx.z,
                                     s <= z3.RealVal(str(f * (1 + eps))) * xx.z))
            ENG.notes.append('sqrt(c*x^2) modelled by rational enclosure of sqrt(c)')
            return Sym(s)
    return _sqrt_generic(x)


# ---- memoised uninterpreted functions (purity checks, DESIGN 2.3) ------------------------
def _ackermann(fname, terms, outs):
    """congruence by Ackermann reduction: results are fresh constants; for every earlier application of the same
    function, equal arguments imply equal results (keeps the queries in pure arithmetic, which z3 decides far better
    than arithmetic mixed with function symbols)"""
    reg = ENG.records.setdefault('ackermann', {}).setdefault(fname, [])
    for t0, o0 in reg:
        if len(t0) != len(terms):
            continue
        prem = [a == b for a, b in zip(t0, terms) if not a.eq(b)]
        concl = [a == b for a, b in zip(o0, outs)]
        if not prem:
            ENG.assumes.append(z3.And(*concl))
        else:
            ENG.assumes.append(z3.Implies(z3.And(*prem), z3.And(*concl)))
    reg.append((list(terms), list(outs)))
    ENG.records.setdefault('ack_order', []).append((fname, list(terms), list(outs)))


def uf1(name, x, positive_out=False, nonneg_out=False):
    """scalar uninterpreted function: equal arguments give equal results (Ackermann congruence)"""
    key = (name, x.z.get_id())
    if key in ENG.uf_memo:
        return ENG.uf_memo[key][1]
    s = ENG.fresh_real(name)
    a = z3.ToReal(x.z) if x.isint else x.z
    _ackermann('uf1:' + name, [a], [s])
    if positive_out:
        ENG.assumes.append(s > 0)
    if nonneg_out:
        ENG.assumes.append(s >= 0)
    r = Sym(s)
    ENG.uf_memo[key] = (x, r)
    return r


def _flatten_args(a, terms, tag):
    """numeric leaves become function arguments, everything else becomes part of the function's name"""
    if isinstance(a, Sym):
        terms.append(z3.ToReal(a.z) if a.isint else a.z)
    elif isinstance(a, _np.ndarray):
        tag.append('a%s' % (a.shape,))
        for x in a.flat:
            _flatten_args(x, terms, tag)
    elif isinstance(a, (list, tuple)):
        tag.append('l%d' % len(a))
        for x in a:
            _flatten_args(x, terms, tag)
    elif isinstance(a, (bool, _np.bool_, str)) or a is None:
        tag.append(repr(a))
    elif isinstance(a, (int, _np.integer)):
        tag.append('i%d' % int(a))
    elif isinstance(a, (float, _np.floating)):
        terms.append(core.realval(float(a)))
    elif isinstance(a, (complex, _np.complexfloating)):
        terms.append(core.realval(float(a.real)))
        terms.append(core.realval(float(a.imag)))
    else:
        raise Unsupported('uf argument %r' % type(a))


def _term_key(a):
    """structural key of an array / scalar of terms and numbers"""
    if isinstance(a, Sym):
        return ('s', a.z.get_id())
    if isinstance(a, _np.ndarray):
        return ('a', a.shape, tuple(_term_key(x) for x in a.flat))
    if isinstance(a, (list, tuple)):
        return ('l', tuple(_term_key(x) for x in a))
    if isinstance(a, (float, _np.floating)):
        return ('f', float(a))
    if isinstance(a, (int, _np.integer)):
        return ('i', int(a))
    if isinstance(a, (complex, _np.complexfloating)):
        return ('c', complex(a))
    if a is None or isinstance(a, (str, bool)):
        return ('o', a)
    raise Unsupported('uf key for %r' % type(a))


def uf_array(name, args, shape, keep=None):
    """array-valued uninterpreted function: fresh constants per application, with congruence against every earlier
    application of the same function (equal arguments, equal results, even when syntactically different)"""
    from .shim import SymArray
    key = (name, _term_key(args))
    if key in ENG.uf_memo:
        return ENG.uf_memo[key][1]
    terms, tag = [], []
    _flatten_args(args, terms, tag)
    out = _np.empty(shape, dtype=object)
    base = ENG.fresh_name(name)
    outs = []
    for idx in _np.ndindex(*shape):
        v = z3.Real(base + '_' + '_'.join(map(str, idx)))
        out[idx] = Sym(v)
        outs.append(v)
    _ackermann('%s|%s|%s' % (name, '|'.join(tag), shape), terms, outs)
    out = out.view(SymArray)
    ENG.uf_memo[key] = (args if keep is None else keep, out)
    return out


# ---- linear algebra ---------------------------------------------------------------------
def _obj(a):
    return _np.asarray(a, dtype=object)


def solve(A, b, **kw):
    from .shim import SymArray
    if not core.has_sym(A) and not core.has_sym(b):
        import scipy.linalg
        return scipy.linalg.solve(_np.asarray(A, dtype=float), _np.asarray(b, dtype=float), **kw)
    A = _obj(A)
    b = _obj(b)
    n = A.shape[0]
    if kw.get('assume_a') in ('pos', 'sym', 'her', 'positive definite', 'symmetric', 'hermitian'):
        # LAPACK's symmetric solvers read ONE triangle only (scipy: the upper one unless lower=True): the system that is solved
        # is the symmetric matrix built from that triangle, whatever the other triangle holds
        low = bool(kw.get('lower', False))
        T = _np.empty((n, n), dtype=object)
        for i in range(n):
            for j in range(n):
                T[i, j] = A[max(i, j), min(i, j)] if low else A[min(i, j), max(i, j)]
        A = T
    if ENG.uf_mode:
        x = uf_array('solve', (A, b), b.shape)
        ENG.records.setdefault('solve', []).append((A, b, x))
        return x
    mkey = ('solve-memo', _term_key((A, b)))
    if mkey in ENG.uf_memo:
        x = ENG.uf_memo[mkey][1]
        ENG.records.setdefault('solve', []).append((A, b, x))
        return x
    base = ENG.fresh_name('x')
    x = _np.empty(b.shape, dtype=object)
    for idx in _np.ndindex(*b.shape):
        x[idx] = Sym(z3.Real(base + '_' + '_'.join(map(str, idx))))
    Ax = _np.dot(A, x)
    for idx in _np.ndindex(*b.shape):
        ENG.axioms.append(core.tob(Ax[idx] == b[idx]))
    x = x.view(SymArray)
    ENG.uf_memo[mkey] = ((A, b), x)     # a deterministic function: syntactically identical arguments, identical result
    ENG.records.setdefault('solve', []).append((A, b, x))
    return x


def inv(A):
    from .shim import SymArray
    if not core.has_sym(A):
        return _np.linalg.inv(_np.asarray(A, dtype=float))
    A = _obj(A)
    n = A.shape[0]
    if ENG.uf_mode:
        X = uf_array('inv', (A,), A.shape)
        ENG.records.setdefault('inv', []).append((A, X))
        return X
    if n == 1:
        X = _np.empty((1, 1), dtype=object)
        X[0, 0] = 1 / A[0, 0]
        return X.view(SymArray)
    # a deterministic function: the same matrix (entries compared in z3's sum-of-monomials normal form) gets the same unknowns
    from .harness import clear_denominators

    def _same(P, Q):
        for x, y in zip(P.flat, Q.flat):
            if not isinstance(x, Sym) and not isinstance(y, Sym):
                if float(x) != float(y):
                    return False
                continue
            n1, d1 = clear_denominators(core.toz(x))
            n2, d2 = clear_denominators(core.toz(y))
            z = z3.simplify(n1 * d2 - n2 * d1, som=True)
            if not (z3.is_rational_value(z) and z.as_fraction() == 0):
                return False
        return True
    for (Aprev, Xprev) in ENG.records.get('inv', []):
        if Aprev.shape == A.shape and _same(Aprev, A):
            ENG.records.setdefault('inv', []).append((A, Xprev))
            return Xprev
    base = ENG.fresh_name('inv')
    X = _np.empty((n, n), dtype=object)
    for i in range(n):
        for j in range(n):
            X[i, j] = Sym(z3.Real('%s_%d_%d' % (base, i, j)))
    AX = _np.dot(A, X)
    XA = _np.dot(X, A)
    for i in range(n):
        for j in range(n):
            ENG.axioms.append(core.tob(AX[i, j] == (1 if i == j else 0)))
            ENG.axioms.append(core.tob(XA[i, j] == (1 if i == j else 0)))
    X = X.view(SymArray)
    ENG.records.setdefault('inv', []).append((A, X))
    return X


def pinv(A, **kw):
    from .shim import SymArray
    if not core.has_sym(A):
        import scipy.linalg
        return scipy.linalg.pinv(_np.asarray(A, dtype=float), **kw)
    A = _obj(A)
    m, n = A.shape
    # the contract is the exact Moore-Penrose inverse: truncation parameters are outside it and are recorded for the harness
    cut = {k: v for k, v in kw.items() if k in ('atol', 'rtol', 'rcond', 'cond') and v is not None and not (isinstance(v, (int, float)) and v == 0)}
    if cut:
        ENG.records.setdefault('pinv_cutoff', []).append({k: repr(v) for k, v in cut.items()})
    if ENG.uf_mode:
        X = uf_array('pinv', (A,), (n, m))
        ENG.records.setdefault('pinv', []).append((A, X))
        return X
    mkey = ('pinv-memo', _term_key((A,)))
    if mkey in ENG.uf_memo:
        X = ENG.uf_memo[mkey][1]
        ENG.records.setdefault('pinv', []).append((A, X))
        return X
    base = ENG.fresh_name('pinv')
    X = _np.empty((n, m), dtype=object)
    for i in range(n):
        for j in range(m):
            X[i, j] = Sym(z3.Real('%s_%d_%d' % (base, i, j)))
    AX = _np.dot(A, X)
    XA = _np.dot(X, A)
    AXA = _np.dot(AX, A)
    XAX = _np.dot(XA, X)
    ax = []
    for i in range(m):
        for j in range(n):
            ax.append(core.tob(AXA[i, j] == A[i, j]))
    for i in range(n):
        for j in range(m):
            ax.append(core.tob(XAX[i, j] == X[i, j]))
    for i in range(m):
        for j in range(i + 1, m):
            ax.append(core.tob(AX[i, j] == AX[j, i]))
    for i in range(n):
        for j in range(i + 1, n):
            ax.append(core.tob(XA[i, j] == XA[j, i]))
    ENG.axioms.extend(ax)
    X = X.view(SymArray)
    ENG.uf_memo[mkey] = ((A,), X)
    ENG.records.setdefault('pinv', []).append((A, X))
    return X


def eigh(A):
    """numpy.linalg.eigh(A) (UPLO='L'): the symmetric matrix read from the LOWER triangle of A; returns fresh eigenvalues w
    (ascending) and an orthogonal V (V^T V = V V^T = 1) with A_L V = V diag(w).  Records (A_L, w, V)."""
    from .shim import SymArray
    A = _obj(A)
    n = A.shape[0]
    AL = _np.empty((n, n), dtype=object)
    for i in range(n):
        for j in range(n):
            AL[i, j] = A[max(i, j), min(i, j)]
    mkey = ('eigh-memo', _term_key((AL,)))
    if mkey in ENG.uf_memo:
        w, V = ENG.uf_memo[mkey][1]
        ENG.records.setdefault('eigh', []).append((AL, w, V))
        return w, V
    base = ENG.fresh_name('eig')
    w = _np.empty(n, dtype=object)
    V = _np.empty((n, n), dtype=object)
    for i in range(n):
        w[i] = Sym(z3.Real('%s_w%d' % (base, i)))
        for j in range(n):
            V[i, j] = Sym(z3.Real('%s_v%d_%d' % (base, i, j)))
    AV = _np.dot(AL, V)
    VtV = _np.dot(V.T, V)
    VVt = _np.dot(V, V.T)
    ax = []
    for i in range(n):
        for k in range(n):
            ax.append(core.tob(AV[i, k] == V[i, k] * w[k]))
            ax.append(core.tob(VtV[i, k] == (1 if i == k else 0)))
            ax.append(core.tob(VVt[i, k] == (1 if i == k else 0)))
    for k in range(n - 1):
        ax.append(core.tob(w[k] <= w[k + 1]))
    ENG.axioms.extend(ax)
    w = w.view(SymArray)
    V = V.view(SymArray)
    ENG.uf_memo[mkey] = ((AL,), (w, V))
    ENG.records.setdefault('eigh', []).append((AL, w, V))
    if ENG.eigh_hook is not None:
        ENG.eigh_hook(AL, w, V)     # harness-supplied theory instance for this matrix (stated in the evidence)
    return w, V


def det(A):
    if not core.has_sym(A):
        return _np.linalg.det(_np.asarray(A, dtype=float))
    A = _obj(A)
    n = A.shape[0]
    if n == 1:
        return A[0, 0]
    if n == 2:
        return A[0, 0] * A[1, 1] - A[0, 1] * A[1, 0]
    if n == 3:
        return (A[0, 0] * (A[1, 1] * A[2, 2] - A[1, 2] * A[2, 1])
                - A[0, 1] * (A[1, 0] * A[2, 2] - A[1, 2] * A[2, 0])
                + A[0, 2] * (A[1, 0] * A[2, 1] - A[1, 1] * A[2, 0]))
    raise Unsupported('det of %dx%d symbolic matrix' % (n, n))


# ---- uniqueness instances (part of the solve / pinv contract) ---------------------------------
def unique_solve_hint(rec, cand):
    """scipy.linalg.solve returns THE solution (it raises LinAlgError for a singular matrix), so any candidate that
    satisfies the recorded system equals the recorded solution.  Adds that implication, instantiated at `cand`."""
    A, b, x = rec
    Ac = _np.dot(_obj(A), _obj(cand))
    prem = [core.tob(Ac[idx] == _obj(b)[idx]) for idx in _np.ndindex(*_obj(b).shape)]
    concl = [core.tob(_obj(x)[idx] == _obj(cand)[idx]) for idx in _np.ndindex(*_obj(b).shape)]
    ENG.axioms.append(z3.Implies(z3.And(*prem), z3.And(*concl)))


def unique_pinv_hint(rec, cand):
    """the Moore-Penrose inverse is unique: a candidate satisfying the four equations equals the recorded pinv"""
    A, X = rec
    A = _obj(A)
    C = _obj(cand)
    m, n = A.shape
    AC = _np.dot(A, C)
    CA = _np.dot(C, A)
    ACA = _np.dot(AC, A)
    CAC = _np.dot(CA, C)
    prem = []
    for i in range(m):
        for j in range(n):
            prem.append(core.tob(ACA[i, j] == A[i, j]))
    for i in range(n):
        for j in range(m):
            prem.append(core.tob(CAC[i, j] == C[i, j]))
    for i in range(m):
        for j in range(i + 1, m):
            prem.append(core.tob(AC[i, j] == AC[j, i]))
    for i in range(n):
        for j in range(i + 1, n):
            prem.append(core.tob(CA[i, j] == CA[j, i]))
    concl = [core.tob(_obj(X)[idx] == C[idx]) for idx in _np.ndindex(*C.shape)]
    ENG.axioms.append(z3.Implies(z3.And(*prem), z3.And(*concl)))


# ---- exact witnesses at a point instantiation ---------------------------------------------------
def _frac_matrix_pinv(A):
    """exact Moore-Penrose inverse of a rational matrix (rank factorisation A = F G; A+ = G^T (G G^T)^-1 (F^T F)^-1 F^T)"""
    m, n = len(A), len(A[0])
    R = [row[:] for row in A]
    piv = []
    r = 0
    for c in range(n):
        p = next((i for i in range(r, m) if R[i][c] != 0), None)
        if p is None:
            continue
        R[r], R[p] = R[p], R[r]
        pv = R[r][c]
        R[r] = [x / pv for x in R[r]]
        for i in range(m):
            if i != r and R[i][c] != 0:
                f = R[i][c]
                R[i] = [x - f * y for x, y in zip(R[i], R[r])]
        piv.append(c)
        r += 1
        if r == m:
            break
    k = len(piv)
    if k == 0:
        return [[Fraction(0)] * m for _ in range(n)]
    F = [[A[i][c] for c in piv] for i in range(m)]          # m x k
    G = [R[i][:] for i in range(k)]                          # k x n

    def mul(X, Y):
        return [[sum(X[i][t] * Y[t][j] for t in range(len(Y))) for j in range(len(Y[0]))] for i in range(len(X))]

    def tr(X):
        return [list(c) for c in zip(*X)]

    def inv(M):
        d = len(M)
        aug = [M[i][:] + [Fraction(int(i == j)) for j in range(d)] for i in range(d)]
        for c in range(d):
            p = next(i for i in range(c, d) if aug[i][c] != 0)
            aug[c], aug[p] = aug[p], aug[c]
            pv = aug[c][c]
            aug[c] = [x / pv for x in aug[c]]
            for i in range(d):
                if i != c and aug[i][c] != 0:
                    f = aug[i][c]
                    aug[i] = [x - f * y for x, y in zip(aug[i], aug[c])]
        return [row[d:] for row in aug]
    return mul(mul(tr(G), inv(mul(G, tr(G)))), mul(inv(mul(tr(F), F)), tr(F)))


def witness_hyps(hyps):
    """At a point instantiation (hyps fix every input) compute the exact rational value of every recorded pinv / solve
    unknown and return them as additional hypotheses, so that the solver only has to CHECK the stub equations there.
    Returns None if some matrix entry is not rational at that point."""
    s = z3.Solver()
    s.set('timeout', 20000)
    for a in ENG.assumes:
        s.add(a)
    for c in ENG.pc:
        s.add(c)
    for h in hyps:
        s.add(core.tob(h))
    if str(s.check()) != 'sat':
        return None
    m = s.model()

    def val(x):
        v = m.eval(core.toz(x), model_completion=True)
        v = z3.simplify(v)
        if z3.is_int_value(v):
            return Fraction(v.as_long())
        if z3.is_rational_value(v):
            return v.as_fraction()
        return None
    out = list(hyps)
    for (A, X) in ENG.records.get('pinv', []):
        Av = [[val(A[i, j]) for j in range(A.shape[1])] for i in range(A.shape[0])]
        if any(x is None for row in Av for x in row):
            return None
        P = _frac_matrix_pinv(Av)
        for i in range(len(P)):
            for j in range(len(P[0])):
                out.append(core.toz(X[i, j]) == z3.RealVal(str(P[i][j])))
        # later records may depend on this one: re-solve with the new equalities
        for h in out[len(hyps):]:
            s.add(h)
        if str(s.check()) != 'sat':
            return None
        m = s.model()
    return out


def uf_point_assignment(k=0, input_hyps=()):
    """hypotheses giving every uninterpreted-function result created so far on this path a dyadic value that is a
    deterministic function of (function, evaluated arguments): respects congruence by construction.  Together with an
    assignment of the inputs (input_hyps: list of `var == value` equalities) the solver then only has to EVALUATE the
    obligation at that point.  Returns the hypotheses for the function results (None if an argument does not evaluate)."""
    import hashlib
    subs = []
    for h in input_hyps:
        h = core.tob(h)
        if z3.is_eq(h):
            a, b = h.arg(0), h.arg(1)
            if z3.is_const(b) and b.decl().kind() == z3.Z3_OP_UNINTERPRETED:
                a, b = b, a
            subs.append((a, b))
    hyps = []
    table = {}
    for fname, terms, outs in ENG.records.get('ack_order', []):
        vals = []
        for t in terms:
            v = z3.simplify(z3.substitute(t, *subs)) if subs else z3.simplify(t)
            if not (z3.is_rational_value(v) or z3.is_int_value(v)):
                return None
            vals.append(str(v))
        key = (fname, tuple(vals))
        if key not in table:
            row = []
            for j in range(len(outs)):
                hsh = int(hashlib.sha1(('%s|%s|%d|%d' % (fname, vals, j, k)).encode()).hexdigest()[:6], 16)
                row.append(Fraction((hsh % 1021) + 1, 256))
            table[key] = row
        for o, val in zip(outs, table[key]):
            rv = z3.RealVal(str(val))
            hyps.append(o == rv)
            subs.append((o, rv))
    return hyps


def _pc_input_model(inputs):
    """a model of the linear part of (assumptions, path condition), as generic as the path allows: all inputs pairwise
    different if possible, else corresponding components of two inputs kept apart greedily.  Memoised per path state."""
    import time as _t
    ckey = ('pc-input-model', len(ENG.pc), len(ENG.assumes))
    if ckey in ENG.uf_memo:
        return ENG.uf_memo[ckey]
    ENG.uf_memo[ckey] = None
    t0 = _t.time()
    s = z3.Solver()
    s.set('timeout', 10000)
    for c in ENG._linear_part():
        s.add(c)
    names = [nm for nm, v in sorted(inputs.items())]
    vars_ = [core.toz(v) for nm, v in sorted(inputs.items())]
    if str(s.check()) != 'sat':
        ENG.nq += 1
        ENG.tq += _t.time() - t0
        return None
    m = s.model()
    nq = 1
    s.set('timeout', 3000)
    s.push()
    s.add(z3.Distinct(*vars_) if len(vars_) > 1 else z3.BoolVal(True))
    nq += 1
    if str(s.check()) == 'sat':
        m = s.model()
        s.pop()
    else:
        s.pop()
        s.set('timeout', 1500)
        tries = 0
        for a in range(len(vars_)):
            for b in range(a + 1, len(vars_)):
                # corresponding components of two inputs (names that differ in the leading tag only)
                if names[a][1:] != names[b][1:] or tries >= 10:
                    continue
                va, vb = m.eval(vars_[a], model_completion=True), m.eval(vars_[b], model_completion=True)
                if z3.is_true(z3.simplify(va == vb)):
                    tries += 1
                    nq += 1
                    s.push()
                    s.add(vars_[a] != vars_[b])
                    if str(s.check()) == 'sat':
                        m = s.model()
                    else:
                        s.pop()
    ENG.nq += nq
    ENG.tq += _t.time() - t0
    ENG.uf_memo[ckey] = (m, vars_)
    return ENG.uf_memo[ckey]


def pc_point_probe(inputs, k=0, uf_from_model=False):
    """point instantiation ON the current path: input values are taken from a model of the linear part of
    (assumptions and path condition); uninterpreted-function results get congruence-respecting generic values (or,
    with uf_from_model, the model's own values).  Returns hypotheses or None."""
    ckey = ('pc-probe', len(ENG.pc), len(ENG.assumes), k, uf_from_model, len(ENG.records.get('ack_order', [])))
    if ckey in ENG.uf_memo:
        return ENG.uf_memo[ckey]
    ENG.uf_memo[ckey] = None
    mv = _pc_input_model(inputs)
    if mv is None:
        return None
    m, vars_ = mv
    ih = []
    for v in vars_:
        val = m.eval(v, model_completion=True)
        ih.append(v == val)
    if uf_from_model:
        uh = []
        for fname, terms, outs in ENG.records.get('ack_order', []):
            for o in outs:
                uh.append(o == m.eval(o, model_completion=True))
        ENG.uf_memo[ckey] = ih + uh
        return ih + uh
    uh = uf_point_assignment(k, ih)
    ENG.uf_memo[ckey] = None if uh is None else ih + uh
    return ENG.uf_memo[ckey]
