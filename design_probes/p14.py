import numpy as np, z3, time, itertools
import symx
from symx import ENG, Sym, SymBool, Int, Real
from onsager import crystal, supercell
crys = crystal.Crystal(np.eye(3), [np.zeros(3)])
NS = 1
base = supercell.Supercell(crys, np.array([[3,0,0],[0,1,0],[0,0,1]]), Nsolute=NS, NOSYM=True)
n = base.N*base.size; Nchem = base.Nchem
print('sites', n, 'Nchem', Nchem, 'crys.Nchem', crys.Nchem)
def run_shape(counts):
    def run():
        sup = base.copy()
        occ = np.array([Int('occ%d' % k) for k in range(n)], dtype=object)
        for o in occ: ENG.assume((o >= -1) & (o < Nchem))
        chemorder = [[Int('co%d_%d' % (c, k)) for k in range(counts[c])] for c in range(Nchem)]
        allel = [e for l in chemorder for e in l]
        for e in allel: ENG.assume((e >= 0) & (e < n))
        for a, b in itertools.combinations(allel, 2): ENG.assume(a != b)
        # invariant: occ[e]==c for listed; number of sites with occ==c equals len
        for c, l in enumerate(chemorder):
            for e in l:
                ENG.assume(SymBool(z3.Or(*[z3.And((e == k).z, (occ[k] == c).z) for k in range(n)])))
            cnt = sum([z3.If((occ[k] == c).z, 1, 0) for k in range(n)])
            ENG.assumes.append(cnt == len(l))
        sup.occ = occ; sup.chemorder = chemorder
        ind = Int('ind'); c = Int('c')
        ENG.assume((ind >= 0) & (ind < n))
        pre_occ = list(occ)
        try:
            sup.setocc(ind, c)
            raised = False
        except IndexError:
            raised = True
        declared = SymBool(z3.And((c >= -1).z, (c < Nchem).z))
        obs = []
        if raised:
            obs.append(('rejected-only-undeclared', ~declared))
            obs.append(('state-unchanged', SymBool(z3.And(*[(a == b).z for a, b in zip(pre_occ, sup.occ)])) ))
        else:
            obs.append(('accepted-only-declared', declared))
            # post invariant
            conds = []
            for cc, l in enumerate(sup.chemorder):
                for e in l:
                    conds.append(z3.Or(*[z3.And((e == k).z if isinstance(e, Sym) else z3.BoolVal(e == k), (sup.occ[k] == cc).z) for k in range(n)]))
                cnt = sum([z3.If((sup.occ[k] == cc).z, 1, 0) for k in range(n)])
                conds.append(cnt == len(l))
            conds.append(z3.And(*[z3.And((o >= -1).z, (o < Nchem).z) for o in sup.occ]))
            obs.append(('post-invariant', SymBool(z3.And(*conds))))
        return obs
    return run
t = time.time()
from collections import Counter
tot = Counter()
for counts in [(1,0),(2,1),(0,0),(1,1),(3,0)]:
    npaths, res = ENG.explore(run_shape(counts), maxpaths=500)
    c = Counter((r[0], r[1]) for r in res); tot.update(c)
    cex = [r for r in res if r[0] == 'cex']
    print(counts, npaths, dict(c))
    if cex:
        m = cex[0][2]; print('   model c =', m[z3.Int('c')], 'ind =', m[z3.Int('ind')])
print('queries', ENG.nq, 'solver %.1f' % ENG.tq, 'wall %.1f' % (time.time()-t))
