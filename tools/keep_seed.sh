#!/bin/sh
# keep_seed.sh <PROP> <seed-name> <worktree> "<needs>"  : store a confirmed seed under /verif/seeded/<seed-name>/
PROP="$1"; NAME="$2"; WT="$3"; NEEDS="$4"
D=/verif/seeded/$NAME
mkdir -p "$D"
cp "$WT/_seed/patch.diff" "$WT/_seed/demo.py" "$WT/_seed/notes.md" "$WT/_seed/confirm.txt" "$D/"
/venv/bin/python - "$PROP" "$NAME" "$NEEDS" "$D" <<'PY'
import json, sys
prop, name, needs, d = sys.argv[1:5]
conf = open(d + '/confirm.txt').read()
meta = {'property': prop, 'seed': name, 'needs_to_manifest': needs,
        'confirmed': {'how': 'tools/confirm_seed.sh in a scratch worktree of /repo: demo.py with and without the patch, then the full unedited test suite with the patch applied',
                      'result': conf.strip().splitlines()},
        'base_commit': 'e6987bf',
        'detected_by': None}
json.dump(meta, open(d + '/meta.json', 'w'), indent=1)
PY
echo kept $D
