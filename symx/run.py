"""Check driver: runs harness sections (optionally in parallel), replays counterexamples
against the untouched code, applies the known-findings file, writes evidence, sets exit code.

Exit codes: 0 held (inconclusive obligations listed, never counted as discharged),
1 violation reproduced on the real code, 3 harness error (vacuous twin, cex that does not
reproduce, crash in the harness)."""
import hashlib
import json
import multiprocessing
import os
import subprocess
import sys
import time
import traceback

import z3

from . import core, loader
from .core import ENG

VERIF = os.path.dirname(os.path.dirname(os.path.abspath(__file__)))
REPLAY_DIR = os.environ.get('VERIF_REPLAY_DIR') or os.path.join(VERIF, 'replays')
# evidence under /verif/evidence describes /repo only: a run against another tree (ONSAGER_REPO: seeded changes in scratch
# worktrees) writes its evidence to a scratch directory instead
_OTHER = os.path.realpath(os.environ.get('ONSAGER_REPO') or '/repo') != os.path.realpath('/repo')
EVID_DIR = os.environ.get('VERIF_EVIDENCE_DIR') or (os.path.join('/tmp', 'verif-evidence-other-tree') if _OTHER else os.path.join(VERIF, 'evidence'))
KNOWN = os.path.join(VERIF, 'known_findings.json')


def tier():
    t = os.environ.get('VERIF_TIER', 'quick')
    for i, a in enumerate(sys.argv):
        if a == '--tier' and i + 1 < len(sys.argv):
            t = sys.argv[i + 1]
    return t if t in ('quick', 'thorough') else 'quick'


def seed():
    try:
        return int(os.environ.get('VERIF_SEED', '0'))
    except ValueError:
        return 0


class Section:
    """one unit of work: a harness function explored path by path"""

    def __init__(self, name, fn, maxpaths=2000, budget_s=120, timeout_ms=20000, config=None,
                 replayer=None, stop_on_cex=False, nmodels=3, branch_timeout_ms=None):
        self.name = name
        self.fn = fn
        self.maxpaths = maxpaths
        self.budget_s = budget_s
        self.timeout_ms = timeout_ms
        self.branch_timeout_ms = branch_timeout_ms
        self.config = config or name
        self.replayer = replayer
        self.stop_on_cex = stop_on_cex
        self.nmodels = nmodels


def _alt_models(outcome, inputs, n):
    """a few different concrete input assignments violating the obligation on this path"""
    out = []
    m = outcome.model
    try:
        out.append(core.model_value(m, inputs))
    except Exception as e:   # noqa
        return out
    return out


_SECTIONS = []


def _run_index(i):
    import pickle
    summ = _run_section(_SECTIONS[i])
    try:
        pickle.dumps(summ)
    except BaseException as e:   # a symbolic value leaked into the summary: report, do not hang the pool
        summ = {'name': summ.get('name'), 'config': str(summ.get('config')), 'error': 'unpicklable summary: %r' % (e,)}
    return summ


def _run_section(sec):
    """executed in a worker process"""
    t0 = time.time()
    ENG.timeout_ms = sec.timeout_ms
    ENG.branch_timeout_ms = sec.branch_timeout_ms
    ENG.nq = 0
    ENG.tq = 0.0
    ENG.nq_unknown = 0
    summ = {'name': sec.name, 'config': sec.config, 'error': None}
    try:
        res = ENG.explore(sec.fn, maxpaths=sec.maxpaths, budget_s=sec.budget_s, stop_on_cex=sec.stop_on_cex)
    except core.Abort as e:
        summ['error'] = 'abort escaped: %r' % (e,)
        return summ
    except Exception:
        summ['error'] = traceback.format_exc()
        return summ
    outs = []
    for o in res.outcomes:
        d = {'name': o.name, 'status': o.status, 'how': o.how, 'trivial': o.trivial, 'sexpr': o.sexpr,
             'npath': len(o.decisions), 'pcsig': hash(o.pcsig), 'npc': len(o.pcsig)}
        info = o.info or {}
        d['sig'] = info.get('sig', o.name)
        d['replayer'] = info.get('replayer', sec.replayer)
        d['extra'] = info.get('extra')
        d['soft'] = bool(info.get('soft'))
        if o.status == 'cex':
            try:
                d['inputs'] = core.model_value(o.model, info.get('inputs', {}))
            except Exception as e:
                d['inputs'] = None
                d['model_error'] = repr(e)
        outs.append(d)
    summ.update(npaths=res.npaths, outcomes=outs,
                aborted=[(k, m[:300]) for k, m, _ in res.aborted], budget_cut=res.budget_cut,
                notes=res.notes, nq=ENG.nq, tq=ENG.tq, nq_unknown=ENG.nq_unknown, wall=time.time() - t0)
    return summ


def _json_default(o):
    import numpy as np
    if isinstance(o, np.integer):
        return int(o)
    if isinstance(o, np.floating):
        return float(o)
    if isinstance(o, np.ndarray):
        return o.tolist()
    if isinstance(o, (set, frozenset)):
        return sorted(o)
    return repr(o)


class Check:
    def __init__(self, pid, functions=(), assumptions=(), explanation='', bounds=''):
        self.pid = pid
        self.tier = tier()
        self.seed = seed()
        self.t0 = time.time()
        self.functions = list(functions)
        self.assumptions = list(assumptions)
        self.explanation = explanation
        self.bounds = bounds
        self.summaries = []
        self.concrete = []      # (name, ok, detail) concrete side results reported alongside
        self.harness_errors = []
        self.validations = 0
        self.extra = {}

    # ---- running
    def run(self, sections, procs=None):
        sections = list(sections)
        only = os.environ.get('VERIF_ONLY')
        if only:
            sections = [s for s in sections if only in s.name]
        if not sections:
            return
        procs = procs or min(len(sections), int(os.environ.get('VERIF_PROCS', '16')))
        if procs <= 1 or len(sections) == 1:
            for s in sections:
                self.summaries.append(_run_section(s))
            return
        global _SECTIONS
        _SECTIONS = sections
        ctx = multiprocessing.get_context('fork')
        with ctx.Pool(procs, maxtasksperchild=1) as pool:
            for summ in pool.imap_unordered(_run_index, range(len(sections)), chunksize=1):
                self.summaries.append(summ)
                if os.environ.get('VERIF_PROGRESS'):
                    print('  [section %s done: paths=%s wall=%.1fs err=%s]' % (summ['name'], summ.get('npaths'), summ.get('wall', 0),
                                                                      bool(summ.get('error'))), file=sys.stderr, flush=True)

    def note_concrete(self, name, ok, detail=''):
        self.concrete.append((name, bool(ok), detail))

    def validated(self, n=1):
        self.validations += n

    def harness_error(self, msg):
        self.harness_errors.append(msg)

    # ---- finishing
    def _known(self):
        try:
            with open(KNOWN) as f:
                return json.load(f)
        except FileNotFoundError:
            return {'findings': []}

    def finish(self):
        os.makedirs(EVID_DIR, exist_ok=True)
        os.makedirs(REPLAY_DIR, exist_ok=True)
        known = [k for k in self._known().get('findings', [])
                 if k.get('property') == self.pid and k.get('status') == 'known']
        n_ob = n_ok = n_unk = n_triv = n_cex = 0
        twins_total = twins_sat = 0
        soft_total = soft_sat = n_vacuous = 0
        samples = []
        distinct = set()
        violations = []       # reproduced, not known
        known_hits = {}
        nrep = 0
        nq = 0
        tq = 0.0
        npaths = 0
        aborted = []
        budget_cut = 0
        inconclusive = []
        sig_state = {}
        lemmas = {}
        for s in sorted(self.summaries, key=lambda x: x['name']):
            if s.get('error'):
                self.harness_errors.append('section %s crashed: %s' % (s['name'], s['error'][-1500:]))
                continue
            nq += s['nq']
            tq += s['tq']
            npaths += s['npaths']
            budget_cut += s['budget_cut']
            for k, m in s['aborted']:
                aborted.append('%s: %s: %s' % (s['name'], k, m))
            # soft twins ('twin?:'): reachability witnesses on paths whose feasibility was over-approximated; a path whose
            # soft twin is unsat is infeasible: everything stated on it is vacuous and is not counted as discharged
            vac = {o.get('pcsig') for o in s['outcomes'] if o['name'].startswith('twin?:') and o['status'] == 'ok'}
            soft = [o for o in s['outcomes'] if o['name'].startswith('twin?:')]
            if soft:
                soft_total += len(soft)
                soft_sat += sum(1 for o in soft if o['status'] == 'cex')
            for o in s['outcomes']:
                if o['name'].startswith('twin?:'):
                    continue
                if o.get('pcsig') in vac:
                    n_vacuous += 1
                    continue
                if o['name'].startswith('lemma:'):
                    # auxiliary lemma candidates for lemma chains: a failing candidate is not a violation
                    lemmas[o['status']] = lemmas.get(o['status'], 0) + 1
                    continue
                if o['name'].startswith('twin:'):
                    twins_total += 1
                    if o['status'] == 'skip':
                        twins_total -= 1
                    elif o['status'] == 'cex':
                        twins_sat += 1
                    elif o['status'] == 'ok':
                        self.harness_errors.append('vacuity twin %s/%s came back unsat' % (s['name'], o['name']))
                    continue
                n_ob += 1
                if o['status'] == 'ok':
                    n_ok += 1
                    if o['trivial'] and not o.get('npc'):
                        n_triv += 1
                    else:
                        distinct.add(hashlib.sha256(('%s|%s|%s|%s' % (s['name'], o['name'], o.get('pcsig'), o['sexpr'])).encode()).hexdigest())
                        if len(samples) < 3:
                            samples.append({'section': s['name'], 'obligation': o['name'], 'decided': 'unsat (%s)' % o['how'],
                                            'formula': o['sexpr']})
                elif o['status'] == 'unknown':
                    n_unk += 1
                    inconclusive.append('%s/%s (%s)' % (s['name'], o['name'], o['how']))
                else:
                    n_cex += 1
                    st = sig_state.setdefault(o['sig'], {'tries': 0, 'rep': None, 'first': None})
                    if st['rep'] is not None or st['tries'] >= 3:
                        continue      # same signature already reproduced (or tried 3 models): not replayed again
                    rep = self._replay(s, o, nrep)
                    nrep += 1
                    st['tries'] += 1
                    if st['first'] is None:
                        st['first'] = (s, o, rep)
                    if rep['reproduced']:
                        st['rep'] = (s, o, rep)
        for sig, st in sorted(sig_state.items()):
            if st['rep'] is not None:
                s, o, rep = st['rep']
                hit = None
                for k in known:
                    if k.get('signature') == sig:
                        hit = k
                if hit is not None:
                    known_hits[sig] = (hit, rep)
                else:
                    violations.append((s, o, rep))
            elif st['first'][1].get('soft'):
                s, o, rep = st['first']
                n_unk += 1
                n_cex -= 1
                inconclusive.append('%s/%s (candidate counterexample from a refuted lemma did not reproduce)' % (s['name'], o['name']))
            else:
                s, o, rep = st['first']
                self.harness_errors.append('counterexample for %s/%s (signature %s) did not reproduce on the real code in %d '
                                           'attempts: %s (replay file %s)' % (s['name'], o['name'], sig, st['tries'],
                                                                             rep.get('detail'), rep['path']))
        for name, ok, detail in self.concrete:
            if not ok:
                self.harness_errors.append('concrete side-check failed: %s %s' % (name, detail))
        for sig, (k, rep) in sorted(known_hits.items()):
            print('KNOWN-FINDING: property=%s %s' % (self.pid, k.get('what', sig)))
        seen = set()
        for s, o, rep in violations:
            if o['sig'] in seen:
                continue
            seen.add(o['sig'])
            print('VIOLATION property=%s replay=%s' % (self.pid, rep['path']))
            print('  obligation %s/%s signature=%s: %s' % (s['name'], o['name'], o['sig'], rep.get('detail')))
        wall = time.time() - self.t0
        ev = {
            'property_id': self.pid,
            'tier': self.tier,
            'seed': self.seed,
            'level': 'other',
            'coverage': {
                'explanation': self.explanation,
                'evaluations': nq,
                'distinct_nontrivial': len(distinct),
                'rule': 'evaluations = solver queries issued (branch feasibility + obligations); distinct_nontrivial = '
                        'discharged (path, obligation) instances for which the obligation formula or the path condition is a '
                        'non-constant formula over the symbolic inputs, counted distinct by (section, obligation, path-condition '
                        'hash, simplified formula text); obligations that are constant-true on a path with empty path condition '
                        'are counted under discharged_trivially only',
                'samples': samples or [{'note': 'no non-trivial obligation discharged'}],
                'obligations': n_ob,
                'discharged': n_ok,
                'discharged_trivially': n_triv,
                'inconclusive': n_unk,
                'inconclusive_list': inconclusive[:40],
                'counterexamples': n_cex,
                'counterexamples_replayed': nrep,
                'known_findings_hit': sorted(known_hits),
                'paths_explored': npaths,
                'paths_aborted': len(aborted),
                'paths_aborted_list': aborted[:20],
                'paths_budget_cut': budget_cut,
                'vacuity_twins': {'total': twins_total, 'sat_as_expected': twins_sat},
                'path_reachability_twins': {'total': soft_total, 'sat': soft_sat,
                                            'obligations_on_infeasible_paths_not_counted': n_vacuous},
                'lemma_candidates': lemmas,
                'shim_validation_runs': self.validations,
                'concrete_side_checks': [{'name': n, 'ok': ok, 'detail': d} for n, ok, d in self.concrete][:60],
                'solver': {'z3': z3.get_version_string(), 'queries': nq, 'solver_seconds': round(tq, 3)},
                'functions_encoded': [{'name': n, 'sha256_16': h} for n, h in self.functions],
                'module_sources_sha256': dict(loader.SOURCES),
                'configurations': sorted({str(s.get('config')) for s in self.summaries}),
                'bounds': self.bounds,
                'sections': [{'name': s['name'], 'paths': s.get('npaths'), 'queries': s.get('nq'),
                              'solver_s': round(s.get('tq', 0), 2), 'wall_s': round(s.get('wall', 0), 2),
                              'notes': s.get('notes')} for s in sorted(self.summaries, key=lambda x: x['name'])],
                'harness_errors': self.harness_errors[:20],
                'exhaustive': False,
            },
            'assumptions': self.assumptions,
            'wall_s': round(wall, 2),
            'violations': len(seen),
        }
        ev['coverage'].update(self.extra)
        with open(os.path.join(EVID_DIR, '%s.json' % self.pid), 'w') as f:
            json.dump(ev, f, indent=1, default=_json_default)
        print('%s tier=%s: obligations=%d discharged=%d (trivial %d) inconclusive=%d cex=%d paths=%d aborted=%d cut=%d '
              'twins=%d/%d queries=%d solver=%.1fs wall=%.1fs'
              % (self.pid, self.tier, n_ob, n_ok, n_triv, n_unk, n_cex, npaths, len(aborted), budget_cut,
                 twins_sat, twins_total, nq, tq, wall))
        if inconclusive:
            print('  inconclusive: %s' % ', '.join(inconclusive[:8]))
        if aborted:
            print('  aborted paths: %s' % ' | '.join(aborted[:4]))
        if seen:
            sys.exit(1)
        if self.harness_errors:
            for e in self.harness_errors[:10]:
                print('HARNESS-ERROR %s: %s' % (self.pid, e))
            sys.exit(3)
        if n_ok == 0:
            print('HARNESS-ERROR %s: nothing discharged' % self.pid)
            sys.exit(3)
        sys.exit(0)

    def _replay(self, s, o, n):
        path = os.path.join(REPLAY_DIR, '%s-%d.json' % (self.pid, n))
        rec = {'property': self.pid, 'section': s['name'], 'config': s.get('config'), 'obligation': o['name'],
               'signature': o['sig'], 'replayer': o.get('replayer'), 'inputs': o.get('inputs'), 'extra': o.get('extra')}
        with open(path, 'w') as f:
            json.dump(rec, f, indent=1, default=_json_default)
        out = {'path': path, 'reproduced': False, 'detail': None}
        if not o.get('replayer') or o.get('inputs') is None:
            out['detail'] = 'no replayer / no concrete inputs (%s)' % o.get('model_error')
            return out
        r = run_replay_subprocess(self.pid, path)
        out['reproduced'] = r[0]
        out['detail'] = r[1]
        return out


def run_replay_subprocess(pid, path):
    cmd = [sys.executable, '-W', 'ignore', os.path.join(VERIF, 'checks', '%s.py' % pid), '--replay', path]
    env = dict(os.environ)
    env['PYTHONPATH'] = VERIF
    try:
        p = subprocess.run(cmd, capture_output=True, text=True, timeout=600, env=env, cwd=VERIF)
    except subprocess.TimeoutExpired:
        return False, 'replay timed out'
    tail = (p.stdout + p.stderr).strip().splitlines()[-6:]
    if p.returncode == 1 and 'REPRODUCED' in p.stdout:
        return True, ' / '.join(tail)
    return False, 'exit %d: %s' % (p.returncode, ' / '.join(tail))


def replay_main(pid, replayers):
    """entry for `checks/<pid>.py --replay file`: plain modules, real numpy."""
    path = sys.argv[sys.argv.index('--replay') + 1]
    loader.install_plain()
    with open(path) as f:
        rec = json.load(f)
    fn = replayers[rec['replayer']]
    try:
        violated, detail = fn(rec)
    except Exception as e:   # noqa
        # an exception that comes out of the library itself on the counterexample's inputs (valid inputs by construction) is the
        # failure the counterexample predicts in its bluntest form (e.g. LinAlgError: singular matrix in the bias solver); an
        # exception raised by the harness alone is a harness problem and propagates
        import traceback
        frames = traceback.extract_tb(e.__traceback__)
        repo = os.path.realpath(os.environ.get('ONSAGER_REPO') or '/repo')
        if not any(os.path.realpath(f.filename).startswith(os.path.join(repo, 'onsager')) for f in frames):
            raise
        violated, detail = True, 'the real code raised %s: %s on the counterexample inputs %s' % (type(e).__name__, str(e)[:200], rec.get('inputs'))
    if violated:
        print('REPRODUCED %s' % detail)
        print('VIOLATION property=%s replay=%s' % (pid, path))
        sys.exit(1)
    print('not reproduced: %s' % detail)
    sys.exit(0)


def is_replay():
    return '--replay' in sys.argv
