"""C12 internal-friction loss tensors: relaxation rates, compliance symmetries, positive semidefiniteness, sum rule.

The real Interstitial.losstensors (with siteprob / ratelist / symmratelist / siteDipoles and its np.linalg.eigh call)
runs on solver terms: site and transition-state energies through the monomial algebra (all symbolic, or a dyadic grid
instance), ALL elastic-dipole components symbolic.  np.linalg.eigh is a CONTRACT (fresh eigenvalues w ascending, fresh
orthogonal V, A_L V = V diag(w) on the symmetric matrix read from the lower triangle).  The harness builds the
symmetrised rate matrix independently from the inputs; the matrix the code diagonalises must equal it (decided by z3
once, inside the contract), and then the spectral facts every symmetrised rate matrix of a connected network has are
instantiated: largest eigenvalue 0 with eigenvector +-sqrt(rho), all others negative (premises omega.sqrt(rho) = 0
and connectivity are checked here; the step from them to the spectral facts is Perron-Frobenius, not done by z3).
Per path (skip / merge decisions of the code are forks) the obligations are decided by z3:
  * every reported rate is positive and is minus one of the non-zero eigenvalues of that matrix;
  * every loss tensor has the compliance symmetries (ij)<->(ji), (kl)<->(lk), (ij)<->(kl) and is a sum of squares
    (identity e:L:e = sum_k (F_k:e)^2 over the eigenvectors merged into the mode);
  * sum rule by a lemma chain: sum of reported tensors == sum_{k<N-1} F_k (x) F_k (identity) == sum_ij M_ij s_i s_j
    P_i (x) P_j, M_ij = sum_{k<N-1} V_ik V_jk == delta_ij - s_i s_j (from the contract) |- equilibrium fluctuation
    <P (x) P> - <P> (x) <P>."""
import itertools
import sys

import numpy as np

from symx import run, loader

REPLAY = run.is_replay()
if REPLAY:
    loader.install_plain()
else:
    loader.install()

from onsager import OnsagerCalc, crystal   # noqa: E402
from symx import core, harness, contracts, shim   # noqa: E402
from symx.core import ENG, Sym   # noqa: E402
sys.path.insert(0, __file__.rsplit('/', 1)[0])
import inter   # noqa: E402

z3 = core.z3
BAND_SKIP = 1e-6      # non-zero relaxation rates are assumed >= BAND_SKIP * average rate (the code skips < 1e-8 * average)
BAND_MERGE = 1e-4     # two rates are assumed equal or separated by more than BAND_MERGE*(sum) + 1e-7 (the code merges isclose())


# crystals beyond the exact ones: losstensors uses no geometry (rates and site dipoles only), so irrational structure constants do
# not enter the obligations; these bring degenerate relaxation modes that DO carry a loss tensor (3- and 4-fold sites)
GENERAL = {
    # BCC octahedral interstitials (Snoek relaxation): 3 sites, one class, doubly degenerate mode with tetragonal dipoles
    'bccoct': lambda: (crystal.Crystal(np.array([[-0.5, 0.5, 0.5], [0.5, -0.5, 0.5], [0.5, 0.5, -0.5]]),
                                       [[np.zeros(3)], [np.array([0., 0.5, 0.5]), np.array([0.5, 0., 0.5]), np.array([0.5, 0.5, 0.])]]), 1, 0.6),
    # 2-D triangular host, 3 edge-centre sites (3-fold: E mode couples to strain)
    'tri-edge': lambda: (crystal.Crystal(np.array([[1., 0.5], [0., np.sqrt(0.75)]]),
                                         [[np.zeros(2)], [np.array([0.5, 0.]), np.array([0., 0.5]), np.array([0.5, 0.5])]]), 1, 0.6),
    # BCC host, octahedral (3) + <111> bond-midpoint trigonal (4) sites: a THREE-fold degenerate mode that couples to shear dipoles
    'bcc-oct-trig': lambda: (crystal.Crystal(np.array([[-0.5, 0.5, 0.5], [0.5, -0.5, 0.5], [0.5, 0.5, -0.5]]),
                                             [[np.zeros(3)], [np.array([0., 0.5, 0.5]), np.array([0.5, 0., 0.5]), np.array([0.5, 0.5, 0.]),
                                                              np.array([0.5, 0.5, 0.5]), np.array([0.5, 0., 0.]), np.array([0., 0.5, 0.]),
                                                              np.array([0., 0., 0.5])]]), 1, 0.55),
    # HCP octahedral + tetrahedral network (two classes, 6 sites)
    'hcp-ot': lambda: (geom_hcpot(), 1, 0.7),
}


def geom_hcpot():
    h = crystal.Crystal.HCP(1.0)
    return h.addbasis(h.Wyckoffpos(np.array([0., 0., 0.5])) + h.Wyckoffpos(np.array([1. / 3., 2. / 3., 0.625])))


_GC = {}


def get_calc(cname):
    if cname in GENERAL:
        if cname not in _GC:
            crys, chem, cut = GENERAL[cname]()
            jn = crys.jumpnetwork(chem, cut)
            _GC[cname] = (crys, OnsagerCalc.Interstitial(crys, chem, crys.sitelist(chem), jn), jn)
        return _GC[cname]
    return inter.get_calc(cname)


class _OmegaMismatch(Exception):
    pass


def reference_matrix(calc, inp, s=None):
    """symmetrised rate matrix omega_ij = sqrt(rho_i) W_ij / sqrt(rho_j), omega_ii = -sum_j W_ij, and sqrt(rho), from the inputs"""
    N = calc.N
    w_, rates = inter.site_weights(calc, inp)
    Z = sum(w_)
    rho = [x / Z for x in w_]
    if s is None:
        s = [contracts.sym_sqrt(r) for r in rho]
    om = np.zeros((N, N), dtype=object)
    for (i, j, dx, W, t) in rates:
        if i != j:
            # sqrt(rho_i) W_ij / sqrt(rho_j) = sqrt(W_ij W_ji) = Q y_i y_j / (y_T^2 sqrt(P_i P_j)); sqrt(P) is the monomial variable
            # of a symbolic prefactor (1 when the prefactors are fixed to 1)
            def yP(w_):
                nm = '%sP%d' % (inp.tag, w_)
                return Sym(ENG.logv[nm][1]) if nm in ENG.logv else 1
            om[i, j] = om[i, j] + inp.Q[t] * inp.yE(calc.invmap[i]) * inp.yE(calc.invmap[j]) / \
                (inp.yT(t) * inp.yT(t) * yP(calc.invmap[i]) * yP(calc.invmap[j]))
            om[i, i] = om[i, i] - W
    return om, s, rho, rates


def connected(calc):
    N = calc.N
    adj = {i: set() for i in range(N)}
    for jl in calc.jumpnetwork:
        for (i, j), dx in jl:
            adj[i].add(j)
    seen, todo = {0}, [0]
    while todo:
        for j in adj[todo.pop()]:
            if j not in seen:
                seen.add(j)
                todo.append(j)
    return len(seen) == N


def make_oracle(AL, w, V):
    """concolic guidance for a grid instance (all energies fixed): numerical values of every constant of the path (inputs and
    sqrt unknowns from a model of the assumptions, eigenvalues / eigenvectors of the matrix from numpy.linalg.eigh); a branch
    condition that evaluates to a constant under them is decided that way (tolerance comparisons only: robust to the rounding
    of the values).  Conditions that mention other symbols (dipoles) are left to the solver."""
    from fractions import Fraction
    sv = z3.Solver()
    sv.set('timeout', 20000)
    for a in ENG.assumes:
        sv.add(a)
    if str(sv.check()) != 'sat':
        return None
    m = sv.model()

    def num(v):
        v = z3.simplify(v)
        if z3.is_algebraic_value(v):
            v = v.approx(30)
        if z3.is_int_value(v):
            return Fraction(v.as_long())
        if z3.is_rational_value(v):
            return v.as_fraction()
        return None
    n = AL.shape[0]
    A = np.zeros((n, n))
    for i in range(n):
        for j in range(n):
            x = num(m.eval(core.toz(AL[i, j]), model_completion=True))
            if x is None:
                return None
            A[i, j] = float(x)
    wv, Vv = np.linalg.eigh(A)
    subs = []
    for d in m.decls():
        if d.arity() == 0:
            x = num(m[d])
            if x is not None and not d.name().startswith(('P', 'e_')):
                subs.append((d(), z3.RealVal(str(x)) if d.range() == z3.RealSort() else z3.IntVal(int(x))))
    for k in range(n):
        subs.append((core.toz(w[k]), z3.RealVal(str(Fraction(float(wv[k]))))))
        for i in range(n):
            subs.append((core.toz(V[i, k]), z3.RealVal(str(Fraction(float(Vv[i, k]))))))

    def oracle(zc):
        r = z3.simplify(z3.substitute(zc, *subs))
        if z3.is_true(r):
            return True
        if z3.is_false(r):
            return False
        return None
    return oracle


def loss_laws(cname, grid=None, sym_pre=False, equal_energies=False, regime=None):
    """equal_energies (grid instances with prefactors as inputs): every site energy pinned to the SAME value while the site
    prefactors are pinned to different ones (degenerate energies, unequal occupations)"""
    def fn():
        ENG.eigh_contract = True
        ENG.exact_sqrt_consts = True
        crys, calc, jn = get_calc(cname)
        N, dim = calc.N, calc.dim
        name = 'loss:%s:%s' % (cname, ('sym' if grid is None else 'g%d' % grid) + ('-eqE' if equal_energies else '') + ('-' + regime if regime else ''))
        inp = inter.Inputs(calc, sym_pre=sym_pre)
        if grid is not None:
            fixed = {'y_E%d' % w: 1.25 for w in range(len(calc.sitelist))} if equal_energies else None
            for h in inter.concrete_instance(inp, grid, fixed):
                ENG.assume(h)
        if regime == 'slow':
            # every rate far below 1e-8 in absolute terms (barriers of ~24 kT and more above sites within 1.4 kT of each other): an
            # ABSOLUTE tolerance anywhere in the mode selection drops genuine modes here, with a wide margin for the float replay
            for w_ in range(len(calc.sitelist)):
                ENG.assume(inp.yE(w_) >= 0.5)
                ENG.assume(inp.yE(w_) <= 2)
            for t_ in range(len(jn)):
                ENG.assume(inp.yT(t_) >= 131072)
                ENG.assume(inp.yT(t_) <= 1048576)
        if grid is None:
            # exp(x) >= 1 + x between every two site energies: energies that the code finds close have close monomial variables
            for w1 in range(len(calc.sitelist)):
                for w2 in range(len(calc.sitelist)):
                    if w1 != w2:
                        (E1, y1), (E2, y2) = ENG.logv['E%d' % w1], ENG.logv['E%d' % w2]
                        ENG.assumes.append(y1 >= y2 * (1 + (E1 - E2) / 2))
        src = harness.Src()
        dip = [src.reals('P%d' % w, (dim, dim), -1, 1) for w in range(len(calc.sitelist))]
        inputs = dict(inp.inputs)
        inputs.update(src.inputs)
        info = {'inputs': inputs, 'replayer': 'loss', 'extra': {'crystal': cname, 'sym_pre': sym_pre, 'equal_energies': equal_energies, 'regime': regime}}
        # sqrt(rho): the library's own terms (same memoised sqrt unknowns as inside losstensors), so that the spectral facts
        # meet the code's expressions syntactically; they are checked against the harness' rho below (lemma D)
        s_code, _ = inter.code_sqrt_rho(calc, inp)
        om, s, rho, rates = reference_matrix(calc, inp, list(s_code))
        st = {}

        def hook(AL, w, V):
            st.update(AL=AL, w=w, V=V)
            match = core.tob(harness.exact_eq(AL, om))
            r, _ = ENG.check(z3.Not(match), with_axioms=False, timeout_ms=60000)
            st['match'] = match
            if r != 'unsat':
                # the matrix the code diagonalises is not the symmetrised rate matrix (or undecided): no spectral facts
                st['mismatch'] = r
                raise _OmegaMismatch()
            sg = Sym(z3.Real('sigma'))
            ENG.axioms.append(core.tob(w[N - 1] == 0))
            spectral = [core.tob(sg * sg == 1)] + [core.tob(V[i, N - 1] == sg * s[i]) for i in range(N)]
            ENG.axioms.extend(spectral)
            VVt = np.dot(V, V.T)
            st['spectral'] = spectral + [core.tob(VVt[i, j] == (1 if i == j else 0)) for i in range(N) for j in range(N)]
            if st.get('oracle'):
                ENG.branch_oracle = make_oracle(AL, w, V)
            ave = -sum(om[i, i] for i in range(N)) / N
            for k in range(N - 1):
                ENG.axioms.append(core.tob(w[k] < 0))
                ENG.axioms.append(core.tob(sum(V[i, k] * s[i] for i in range(N)) == 0))   # orthogonal to the zero mode
                ENG.assume(-w[k] >= BAND_SKIP * ave)
                for k2 in range(k + 1, N - 1):
                    d = w[k2] - w[k]
                    ENG.assume(core.Or(d == 0, d > BAND_MERGE * (-w[k] - w[k2]) + 1e-7))
        ENG.eigh_hook = hook
        if grid is not None and N > 2:
            st['oracle'] = True
        obs = []

        def ob(n, v, **kw):
            if st.get('oracle'):
                kw.setdefault('witnessed', True)
            obs.append(('%s:%s' % (name, n), v, dict(info, sig='loss:' + n.split('@')[0], **kw)))
        try:
            with shim.symbolic_mode():
                pre, be, preT, beT = inp.arrays()
                res = calc.losstensors(pre, be, dip, preT, beT)
                sited = calc.siteDipoles(dip)
        except _OmegaMismatch:
            ob('omega-is-symmetrised-rate-matrix', Sym_bool(st['match']))
            return obs
        AL, w, V = st['AL'], st['w'], st['V']
        ob('omega-is-symmetrised-rate-matrix', Sym_bool(st['match']))
        # theory premises on the harness' own matrix
        oms = np.dot(om, np.array(s, dtype=object))
        ob('theory-premise-zero-mode', harness.exact_eq(oms, np.zeros(N, dtype=object)))
        F = [sum(V[i, k] * s[i] * np.asarray(sited[i], dtype=object) for i in range(N)) for k in range(N - 1)]
        e = np.empty((dim, dim), dtype=object)
        for a in range(dim):
            for b in range(a, dim):
                e[a, b] = e[b, a] = Sym(z3.Real('e_%d_%d' % (a, b)))
        tot = np.zeros((dim,) * 4, dtype=object)
        claimed = []
        for m, (l, L) in enumerate(res):
            L = np.asarray(L, dtype=object)
            ob('rate-positive@%d' % m, l > 0)
            ob('rate-is-eigenvalue@%d' % m, core.Or(*[l == -w[k] for k in range(N - 1)]))
            c = []
            for a, b, cc, d in itertools.product(range(dim), repeat=4):
                c += [L[a, b, cc, d] == L[b, a, cc, d], L[a, b, cc, d] == L[a, b, d, cc], L[a, b, cc, d] == L[cc, d, a, b]]
            ob('compliance-symmetry@%d' % m, core.And(*c))
            # eigenvectors merged into this mode: decided by the solver from the path condition
            K = []
            for k in range(N - 1):
                r, _ = ENG.check(core.tob(l != -w[k]), with_axioms=False, timeout_ms=10000)
                if r == 'unsat':
                    K.append(k)
            claimed += K
            eLe = sum(e[a, b] * L[a, b, cc, d] * e[cc, d] for a, b, cc, d in itertools.product(range(dim), repeat=4))
            q = [sum(F[k][a, b] * e[a, b] for a in range(dim) for b in range(dim)) for k in K]
            ob('psd-sum-of-squares@%d' % m, harness.poly_eq([eLe], [sum(x * x for x in q)]) if K else False, timeout_ms=30000, standalone=True)
            tot = tot + L
        ob('every-nonzero-mode-reported-once', sorted(claimed) == list(range(N - 1)))
        # reported rates are pairwise different (equal rates belong to ONE mode)
        for m1 in range(len(res)):
            for m2 in range(m1 + 1, len(res)):
                l1, l2 = res[m1][0], res[m2][0]
                d = l1 - l2
                distinct = core.Or(d > 1e-6 * (l1 + l2), -d > 1e-6 * (l1 + l2))
                if ENG.branch_oracle is not None:
                    o = ENG.branch_oracle(core.tob(distinct))
                    if o is not None:
                        distinct = bool(o)
                ob('rates-distinct@%d.%d' % (m1, m2), distinct)
        # ---- sum rule (lemma chain)
        FF = np.zeros((dim,) * 4, dtype=object)
        for k in range(N - 1):
            for a, b, cc, d in itertools.product(range(dim), repeat=4):
                FF[a, b, cc, d] = FF[a, b, cc, d] + F[k][a, b] * F[k][cc, d]
        lem = []

        def lemma(n, v, **kw):
            nm = '%s:%s' % (name, n)
            if st.get('oracle'):
                kw.setdefault('witnessed', True)
            obs.append((nm, v, dict(info, sig='loss:sum-rule', **kw)))
            lem.append(nm)
        lemma('sum-rule-A:total==sum_k F_k(x)F_k', harness.poly_eq(tot.ravel(), FF.ravel()), timeout_ms=60000, standalone=True)
        # B: projector on the non-zero modes == 1 - s(x)s.  Generic algebra over the contract: V V^T = 1, V[:,N-1] = sigma S, sigma^2 = 1
        # |- sum_{k<N-1} V_ik V_jk == delta_ij - S_i S_j for ALL reals S (fresh names; the path's sqrt(rho) terms are an instance, and the
        # hypotheses are literally among this path's contract axioms)
        S_ = [z3.Real('absS_%d' % i) for i in range(N)]
        sgz = z3.Real('sigma')
        Vz = [[core.toz(V[i, k]) for k in range(N)] for i in range(N)]
        last = N - 1
        b1, b2 = [], []
        for i in range(N):
            for j in range(N):
                d_ = 1 if i == j else 0
                b1.append(z3.Implies(sum(Vz[i][k] * Vz[j][k] for k in range(N)) == d_,
                                     sum(Vz[i][k] * Vz[j][k] for k in range(N - 1)) == d_ - Vz[i][last] * Vz[j][last]))
                b2.append(z3.Implies(z3.And(sgz * sgz == 1, Vz[i][last] == sgz * S_[i], Vz[j][last] == sgz * S_[j]),
                                     Vz[i][last] * Vz[j][last] == S_[i] * S_[j]))
        lemma('sum-rule-B1:drop-zero-mode-from-completeness', Sym_bool(z3.And(*b1)), timeout_ms=60000, standalone='only', hyp=[])
        lemma('sum-rule-B2:zero-mode(x)zero-mode==s(x)s', Sym_bool(z3.And(*b2)), timeout_ms=60000, standalone='only', hyp=[])
        lemma('sum-rule-D:s^2==rho', core.And(*([s[i] * s[i] == rho[i] for i in range(N)] + [s[i] > 0 for i in range(N)])))
        # abstract step: M = 1 - s(x)s |- sum_ij M_ij s_i s_j P_i(x)P_j == sum_i s_i^2 P_i(x)P_i - (sum s_i^2 P_i)(x)(sum s_i^2 P_i)
        aM = [[z3.Real('aM_%d_%d' % (i, j)) for j in range(N)] for i in range(N)]
        as_ = [z3.Real('as_%d' % i) for i in range(N)]
        aP = [[[z3.Real('aP_%d_%d_%d' % (i, a, b)) for b in range(dim)] for a in range(dim)] for i in range(N)]
        hyps = [aM[i][j] == (1 if i == j else 0) - as_[i] * as_[j] for i in range(N) for j in range(N)]
        concl = []
        for a, b, cc, d in itertools.product(range(dim), repeat=4):
            lhs = sum(aM[i][j] * as_[i] * as_[j] * aP[i][a][b] * aP[j][cc][d] for i in range(N) for j in range(N))
            rhs = sum(as_[i] * as_[i] * aP[i][a][b] * aP[i][cc][d] for i in range(N)) \
                - sum(as_[i] * as_[i] * aP[i][a][b] for i in range(N)) * sum(as_[i] * as_[i] * aP[i][cc][d] for i in range(N))
            concl.append(lhs == rhs)
        obs.append(('%s:sum-rule' % name, z3.Implies(z3.And(*hyps), z3.And(*concl)),
                    dict(info, requires=list(lem), sig='loss:sum-rule', timeout_ms=60000)))
        # the harness' fluctuation formula in terms of rho is the one in terms of s^2 (D) - stated for the replay oracle
        Pbar = sum(rho[i] * np.asarray(sited[i], dtype=object) for i in range(N))
        fl = np.zeros((dim,) * 4, dtype=object)
        for a, b, cc, d in itertools.product(range(dim), repeat=4):
            fl[a, b, cc, d] = sum(rho[i] * sited[i][a, b] * sited[i][cc, d] for i in range(N)) - Pbar[a, b] * Pbar[cc, d]
        # reachability twin of this path (feasibility of merge decisions is over-approximated)
        obs.append(('twin?:%s:path' % name, False, {'timeout_ms': 5000}))
        # vacuity twin of the lemma chain: the same abstract step with a perturbed right-hand side must be refutable
        obs.append(('twin:%s:sum-rule-perturbed' % name, z3.Implies(z3.And(*hyps), z3.And(*[c if n else z3.Not(c) for n, c in enumerate(concl)])),
                    {'standalone': 'only', 'timeout_ms': 20000}))
        return obs
    return fn


def Sym_bool(z):
    return core.SymBool(z)


# ---- replay oracle (plain numpy on the untouched code) ---------------------------------------------------
def _replay_loss_once(rec, generic):
    cname = rec['extra']['crystal']
    crys, calc, jn = get_calc(cname)
    N, dim = calc.N, calc.dim
    vals = rec['inputs']
    inp = inter.Inputs(calc, vals=vals)
    pre, be, preT, beT = inp.arrays(symbolic=False)
    src = harness.Src(vals)
    dip = [src.reals('P%d' % w, (dim, dim), -1, 1) for w in range(len(calc.sitelist))]
    if generic or all(np.all(d == 0) for d in dip):
        # (a counterexample that does not depend on the dipoles comes with all-zero dipoles: every tensor would vanish)
        dip = [np.array([[0.5 + 0.25 * w + 0.3 * (a + 1) * (b + 2) - 0.2 * w * a for b in range(dim)] for a in range(dim)]) for w in range(len(calc.sitelist))]
    res = calc.losstensors(pre, be, dip, preT, beT)
    # independent reference
    wts = np.array([pre[calc.invmap[i]] * np.exp(-be[calc.invmap[i]]) for i in range(N)])
    rho = wts / wts.sum()
    om = np.zeros((N, N))
    for t, jl in enumerate(calc.jumpnetwork):
        for (i, j), dx in jl:
            W = preT[t] * np.exp(-beT[t]) / wts[i]
            if i != j:
                om[i, j] += np.sqrt(rho[i]) * W / np.sqrt(rho[j])
                om[i, i] -= W
    lam = -np.linalg.eigvalsh(0.5 * (om + om.T))
    ave = abs(np.trace(om)) / N
    nz = sorted(x for x in lam if x > 1e-7 * ave)
    if len(nz) != N - 1:
        return False, 'outside the guard band (a relaxation rate below 1e-7 of the average rate)'
    bad = []
    G = [g for g in crys.G]
    P = []
    for i in range(N):
        w = calc.invmap[i]
        S = 0.5 * (dip[w] + dip[w].T)
        rep = calc.sitelist[w][0]
        stab = [g for g in G if g.indexmap[calc.chem][rep] == rep]
        Pr = sum(np.dot(g.cartrot, np.dot(S, g.cartrot.T)) for g in stab) / len(stab)
        g = [g for g in G if g.indexmap[calc.chem][rep] == calc.sitelist[w][calc.sitelist[w].index(i)]][0]
        P.append(np.dot(g.cartrot, np.dot(Pr, g.cartrot.T)))
    tot = np.zeros((dim,) * 4)
    scale = max(1e-300, max(np.abs(p).max() for p in P) ** 2)
    for l, L in res:
        if not l > 0:
            bad.append('rate %g not positive' % l)
        if min(abs(l - x) for x in nz) > 1e-7 * max(nz):
            bad.append('rate %g is not a non-zero eigenvalue of the symmetrised rate matrix %s' % (l, nz))
        Lm = L.reshape(dim * dim, dim * dim)
        if np.abs(Lm - Lm.T).max() > 1e-9 * scale or np.abs(L - L.transpose(1, 0, 2, 3)).max() > 1e-9 * scale \
                or np.abs(L - L.transpose(0, 1, 3, 2)).max() > 1e-9 * scale:
            bad.append('loss tensor of rate %g lacks the compliance symmetries' % l)
        if np.linalg.eigvalsh(0.5 * (Lm + Lm.T)).min() < -1e-9 * scale:
            bad.append('loss tensor of rate %g is not positive semidefinite' % l)
        tot += L
    # one reported mode per distinct non-zero eigenvalue
    groups = []
    for x in nz:
        if not groups or abs(x - groups[-1]) > 1e-4 * abs(x):
            groups.append(x)
    if len(res) != len(groups):
        bad.append('%d modes reported, the symmetrised rate matrix has %d distinct non-zero eigenvalues %s' % (len(res), len(groups), groups))
    for a, (l1, _) in enumerate(res):
        for (l2, _) in res[a + 1:]:
            if abs(l1 - l2) <= 1e-6 * abs(l1):
                bad.append('two reported modes share the rate %g' % l1)
    Pbar = sum(rho[i] * P[i] for i in range(N))
    fl = sum(rho[i] * np.einsum('ab,cd->abcd', P[i], P[i]) for i in range(N)) - np.einsum('ab,cd->abcd', Pbar, Pbar)
    if np.abs(tot - fl).max() > 1e-8 * scale:
        bad.append('sum of loss tensors differs from the dipole fluctuation by %g' % np.abs(tot - fl).max())
    if bad:
        return True, '; '.join(bad[:4]) + ' (inputs %s%s)' % (vals, '; dipoles replaced by %s' % [d.tolist() for d in dip] if generic else '')
    return False, 'rates, symmetries, PSD and sum rule hold'


def replay_loss(rec):
    """the inputs of the record; if they do not show a violation, the same energies with a fixed generic set of dipoles (a
    counterexample to a dipole-independent obligation comes with arbitrary, often vanishing, dipoles)"""
    bad, detail = _replay_loss_once(rec, False)
    if not bad:
        bad2, detail2 = _replay_loss_once(rec, True)
        if bad2:
            return bad2, detail2
    return bad, detail


def validate_oracle(chk):
    """the replay oracle accepts the unchanged code on random inputs (also validates the harness' reference formulas)"""
    rng = np.random.RandomState(7)
    for cname in ('X2', 'X5', 'X1s', 'X6', 'bccoct', 'tri-edge', 'hcp-ot', 'bcc-oct-trig'):
        crys, calc, jn = get_calc(cname)
        ok = connected(calc)
        chk.note_concrete('connected:%s' % cname, ok)
        for trial in range(3):
            vals = {}
            for w in range(len(calc.sitelist)):
                vals['y_E%d' % w] = float(np.exp(rng.uniform(-0.5, 0.5)))
                for a in range(calc.dim):
                    for b in range(calc.dim):
                        vals['P%d_%d_%d' % (w, a, b)] = float(rng.uniform(-1, 1))
            for t in range(len(jn)):
                vals['y_T%d' % t] = float(np.exp(rng.uniform(0.2, 0.8)))
            bad, detail = replay_loss({'extra': {'crystal': cname}, 'inputs': vals})
            chk.note_concrete('oracle:%s:%d' % (cname, trial), not bad, detail if bad else '')
            chk.validated()


def sections(tier):
    S = run.Section
    if tier == 'quick':
        plan = [('X2', None, 160), ('X2', 0, 160), ('X2', 3, 160), ('X5', 0, 160), ('X5', 1, 160), ('X1s', 0, 160), ('X2b', 1, 160), ('X6', 0, 160), ('bccoct', 0, 160), ('bccoct', 2, 160), ('tri-edge', 1, 160), ('hcp-ot', 0, 160), ('bcc-oct-trig', 0, 160)]
    else:
        plan = [('X2', None, 1200), ('X2b', None, 1200), ('X5', None, 1200), ('X1s', None, 1200)] + \
               [(c, k, 1200) for c in ('X2', 'X2b', 'X5', 'X1s', 'X1', 'X6', 'bccoct', 'tri-edge', 'hcp-ot', 'bcc-oct-trig') for k in range(4)]
    secs = [S('loss:%s:%s' % (c, 'sym' if g is None else 'g%d' % g), loss_laws(c, g), timeout_ms=30000, budget_s=b, replayer='loss',
              config='%s/%s' % (c, 'all energies symbolic' if g is None else 'grid %d' % g), maxpaths=40) for c, g, b in plan]
    for c in (('X2', 'X5', 'hcp-ot') if tier == 'quick' else ('X2', 'X2b', 'X5', 'hcp-ot', 'tri-edge', 'bccoct')):
        secs.append(S('loss:%s:g0-eqE' % c, loss_laws(c, 0, sym_pre=True, equal_energies=True), timeout_ms=30000, budget_s=160 if tier == 'quick' else 1200,
                      replayer='loss', config='%s/equal site energies, unequal site prefactors' % c, maxpaths=40))
    for c in (('X2',) if tier == 'quick' else ('X2', 'X2b')):
        secs.append(S('loss:%s:sym-slow' % c, loss_laws(c, None, regime='slow'), timeout_ms=30000, budget_s=160 if tier == 'quick' else 1200, replayer='loss',
                      config='%s/all energies symbolic, every rate below 1e-9' % c, maxpaths=40))
    return secs


def main():
    import warnings
    warnings.simplefilter('ignore')
    if REPLAY:
        run.replay_main('C12', {'loss': replay_loss})
    I = OnsagerCalc.Interstitial
    chk = run.Check(
        'C12',
        functions=[loader.func_hash(f) for f in (I.losstensors, I.siteprob, I.ratelist, I.symmratelist, I.siteDipoles)],
        assumptions=[
            'np.linalg.eigh is a contract: fresh w (ascending), fresh orthogonal V (V^T V = V V^T = 1), A_L V = V diag(w), A_L read from the '
            'lower triangle; plus, once z3 has shown that the matrix the code diagonalises equals the harness\' symmetrised rate matrix, '
            'the spectral facts of such a matrix on a connected network: w[N-1] = 0 with V[:,N-1] = +-sqrt(rho), all other w < 0 '
            '(premises omega.sqrt(rho) = 0 decided by z3, connectivity checked concretely; the Perron-Frobenius step is not done by z3)',
            'guard bands: every non-zero relaxation rate >= %g x average rate (the code drops modes below 1e-8 x average); two rates are '
            'equal or separated by more than %g x (their sum) + 1e-7 (the code merges rates that are isclose)' % (BAND_SKIP, BAND_MERGE),
            'exact verification crystals only (X2, X2b: 2 sites; X5: 3 sites; X1s, X1: 5 sites with a symmetry-degenerate orbit); floats are '
            'reals; energies: all symbolic (X2 quick; more in thorough) or dyadic grid instances; ALL dipole components symbolic in [-1,1]; '
            'prefactors 1',
            'feasibility of merge decisions is over-approximated: each path carries a reachability twin and obligations on paths whose '
            'twin is unsat are not counted',
            'disconnected networks (several zero modes) are outside the claim',
        ],
        explanation='Real losstensors on z3 terms with an eigh contract; rates, compliance symmetries, sum-of-squares form and the sum rule '
                    '(lemma chain) decided per path for all dipoles and all / gridded energies.',
        bounds='quick: X2 (all energies symbolic), X2/X2b/X5/X1s grid instances; thorough: X2, X2b, X5, X1s all-symbolic + 4 grid instances '
               'each of X2, X2b, X5, X1s, X1')
    validate_oracle(chk)
    chk.run(sections(chk.tier))
    chk.finish()


if __name__ == '__main__':
    main()
