import numpy as np, z3, time
import symx
from symx import ENG, Sym, SymBool, Int, Real, symarray
from onsager import crystalStars as stars
PS = stars.PairState

def mkps(tag):
    return PS(i=Int(tag+'i'), j=Int(tag+'j'), R=symarray(tag+'R', 3, 'int'), dx=symarray(tag+'dx', 3, 'real'))

def eqdx(a, b):
    r = SymBool(z3.BoolVal(True))
    for x, y in zip(a, b): r = r & (x == y)
    return r

def prop_sub_add():
    # (a-b)+b == a  when a.j == b.j  (documented)
    a, b = mkps('a'), mkps('b')
    ENG.assume(a.j == b.j)
    # exclude the "-1 zero" special-casing
    for p in (a, b):
        ENG.assume(p.i >= 0); ENG.assume(p.j >= 0)
    c = (a - b) + b
    return [('eq', SymBool(z3.BoolVal(True)) if (c == a) else SymBool(z3.BoolVal(False))), ('dx', eqdx(c.dx, a.dx))]

t = time.time()
print(ENG.explore(prop_sub_add))
print('queries', ENG.nq, 'solver s', ENG.tq, 'wall', time.time()-t)

def prop_hash():
    a, b = mkps('a'), mkps('b')
    if a == b:
        Sym.HASHTRACE = []
        hash(a); ta = Sym.HASHTRACE
        Sym.HASHTRACE = []
        hash(b); tb = Sym.HASHTRACE
        Sym.HASHTRACE = None
        ob = SymBool(z3.And(*[x == y for x, y in zip(ta, tb)])) if len(ta) == len(tb) else False
        return [('hash', ob)]
    return []
print(ENG.explore(prop_hash))
