"""C13 saved and reloaded calculators reproduce results exactly (HDF5 half).

The real addhdf5 / loadhdf5 methods and their helpers run against an in-memory store that follows the
documented h5py contract; cached Green-function / Lvv / eta values, Taylor coefficients and helper array
contents are SYMBOLIC, so "the reloaded object gives the same result" is decided as term identity for all
values (uninterpreted abstraction as in C14).  Replays use real h5py (in-memory file).
The YAML half of the property is outside (PyYAML renders concrete floats; nothing symbolic survives)."""
import sys

import numpy as np

from symx import run, loader

REPLAY = run.is_replay()
if REPLAY:
    loader.install_plain()
else:
    loader.install()

from onsager import crystal, OnsagerCalc, GFcalc, crystalStars as stars, PowerExpansion as PE   # noqa: E402
from symx import core, harness, contracts, shim   # noqa: E402
from symx.core import ENG, Sym   # noqa: E402
from symx.harness import Src   # noqa: E402
from symx.shim import SymArray   # noqa: E402
sys.path.insert(0, __file__.rsplit('/', 1)[0])
import C14 as hist   # noqa: E402   (calculator configs, GF stub, input builders)


# ---- in-memory store with the h5py contract used by the library ---------------------------------
class Dataset:
    def __init__(self, v):
        if isinstance(v, np.ndarray) and v.dtype == object:
            self.v = v.copy()
        elif isinstance(v, str):
            self.v = np.array(v, dtype=object)
        else:
            self.v = np.array(v)
        self.attrs = {}

    def __getitem__(self, k):
        if isinstance(k, tuple) and k == ():
            r = self.v[()]
            return r
        return self.v[k]

    def __iter__(self):
        return iter(self.v)

    def __len__(self):
        return len(self.v)

    @property
    def shape(self):
        return self.v.shape

    @property
    def dtype(self):
        return self.v.dtype


class Group:
    def __init__(self):
        self.d = {}
        self.attrs = {}

    def __setitem__(self, k, v):
        if k in self.d:
            raise ValueError('Unable to create dataset (name already exists)')
        self.d[k] = Dataset(v)

    def __getitem__(self, k):
        return self.d[k]

    def __contains__(self, k):
        return k in self.d

    def create_group(self, k):
        if k in self.d:
            raise ValueError('Unable to create group (name already exists)')
        g = Group()
        self.d[k] = g
        return g

    def items(self):
        return sorted(self.d.items())

    def keys(self):
        return sorted(self.d.keys())


def new_store():
    if REPLAY:
        import h5py
        import uuid
        return h5py.File('/tmp/c13-%s.h5' % uuid.uuid4().hex, 'w', driver='core', backing_store=False)
    return Group()


def same_tensor(a, b, sym):
    if sym:
        return harness.exact_eq(a, b)
    a, b = np.asarray(a, dtype=float), np.asarray(b, dtype=float)
    return bool(np.abs(a - b).max() <= 1e-12 * max(np.abs(a).max(), 1e-300))


# ---- VacancyMediated round trip --------------------------------------------------------------------
def vm_roundtrip(cfg, populated, light=False):
    def fn(src=None):
        calc = hist.get_calc(cfg)
        name = 'vm:%s:%s' % (cfg, 'cached' if populated else 'empty')
        sym = src is None
        calc.clearcache()
        if sym:
            ENG.uf_mode = True
            ENG.allow_hash = True
            calc.GFcalc_real = getattr(calc, 'GFcalc_real', calc.GFcalc)
            x = list(hist.sym_inputs(calc, 'x'))
            y = list(hist.sym_inputs(calc, 'y'))
            # vacancy and solute site energies concrete (zero): keeps the min() case splits out; everything else symbolic
            x[0] = np.zeros(len(calc.sitelist))
            x[1] = np.zeros(len(calc.sitelist))
            y[0] = np.zeros(len(calc.sitelist))
            y[1] = np.zeros(len(calc.sitelist))
            inputs = hist.input_dict(x[2:], y[2:])
            ctx = shim.symbolic_mode()
        else:
            v = src.vals
            x = list(hist.conc_inputs(calc, dict({k: 0.0 for k in []}, **{**_zeros(calc, 'x'), **v}), 'x'))
            y = list(hist.conc_inputs(calc, dict(**{**_zeros(calc, 'y'), **v}), 'y'))
            inputs = {}
            import contextlib
            ctx = contextlib.nullcontext()
        info = {'inputs': inputs, 'replayer': 'vm', 'extra': {'cfg': cfg, 'populated': populated, 'light': light}}
        if sym:
            info['probe'] = hist.probes(inputs)
            info['probe_first'] = True
        obs = []

        def ob(n, val):
            obs.append(('%s:%s' % (name, n), val, dict(info, sig='vm:' + n)))
        with ctx:
            real_gf = getattr(calc, 'GFcalc_real', calc.GFcalc)
            if sym:
                calc.GFcalc = hist.GFstub(calc)
            else:
                calc.GFcalc = real_gf
            L1 = hist.snapshot(calc.Lij(*x))
            if not populated:
                calc.clearcache()
            # save: the Green-function calculator object itself is saved by its own (concrete) addhdf5
            stub = calc.GFcalc
            calc.GFcalc = real_gf
            store = new_store()
            calc.addhdf5(store.create_group('D') if REPLAY else store)
            calc.GFcalc = stub
            copy_ = OnsagerCalc.VacancyMediated.loadhdf5(store['D'] if REPLAY else store)
            if sym:
                copy_.GFcalc = stub       # same environment (a function of the rates) for original and copy
            ob('tags', copy_.tags == calc.tags and copy_.tagdict == calc.tagdict and copy_.tagdicttype == calc.tagdicttype)
            ob('cache-size', len(copy_.GFvalues) == len(calc.GFvalues) and len(copy_.Lvvvalues) == len(calc.Lvvvalues)
               and len(copy_.etavvalues) == len(calc.etavvalues))
            # cache contents survive the round trip entry by entry (looked up through the real key hashing/equality)
            for cname_ in ('GFvalues', 'Lvvvalues', 'etavvalues'):
                c0, c1 = getattr(calc, cname_), getattr(copy_, cname_)
                oks = []
                for k_, v_ in c0.items():
                    got = c1.get(k_)
                    oks.append(False if got is None else same_tensor(got, v_, sym))
                ob('cache-%s' % cname_, (core.And(*oks) if sym else all(oks)) if oks else True)
            L2 = copy_.Lij(*x)
            for n, t in enumerate(hist.TENSORS):
                ob('same-input-%s' % t, same_tensor(L2[n], L1[n], sym))
            if light:
                if sym:
                    obs.append(('twin:%s' % name, same_tensor(L2[1], L1[1] + 1, True)))
                return obs
            # a further, different input on both
            Ly = hist.snapshot(calc.Lij(*y))
            Ly2 = copy_.Lij(*y)
            for n, t in enumerate(hist.TENSORS):
                ob('other-input-%s' % t, same_tensor(Ly2[n], Ly[n], sym))
            if sym:
                obs.append(('twin:%s' % name, same_tensor(Ly2[1], L1[1], True)))
        return obs
    return fn


def vm_inputedit(cfg):
    """the caller reuses its INPUT buffers: after a call it edits the transition-state array it passed in place (by an arbitrary
    symbolic amount), then saves and reloads the calculator; the reloaded calculator must answer the ORIGINAL input like the
    first call did and the EDITED input like a calculator that has never seen anything"""
    def fn(src=None):
        import copy
        calc = hist.get_calc(cfg)
        name = 'vm-inputedit:%s' % cfg
        sym = src is None
        calc.clearcache()
        if sym:
            ENG.uf_mode = True
            ENG.allow_hash = True
            calc.GFcalc_real = getattr(calc, 'GFcalc_real', calc.GFcalc)
            x = list(hist.sym_inputs(calc, 'x'))
            x[0] = np.zeros(len(calc.sitelist))
            x[1] = np.zeros(len(calc.sitelist))
            d = core.Sym(core.z3.Real('dedit'))
            ENG.assume(d >= 0.125)
            ENG.assume(d <= 4)
            inputs = hist.input_dict(x[2:])
            inputs['dedit'] = d
            ctx = shim.symbolic_mode()
        else:
            v = src.vals
            x = list(hist.conc_inputs(calc, dict(**{**_zeros(calc, 'x'), **v}), 'x'))
            d = float(v.get('dedit', 1.0))
            inputs = {}
            import contextlib
            ctx = contextlib.nullcontext()
        info = {'inputs': inputs, 'replayer': 'vminputedit', 'extra': {'cfg': cfg}}
        if sym:
            info['probe'] = hist.probes(inputs)
            info['probe_first'] = True
        obs = []

        def ob(n, val):
            obs.append(('%s:%s' % (name, n), val, dict(info, sig='vm-inputedit:' + n)))
        with ctx:
            real_gf = getattr(calc, 'GFcalc_real', calc.GFcalc)
            calc.GFcalc = hist.GFstub(calc) if sym else real_gf
            fresh = copy.deepcopy(calc)
            if sym:
                fresh.GFcalc = hist.GFstub(fresh)
            x_orig = [np.array(a_, dtype=object if sym else float).copy() for a_ in x]
            if sym:
                x_orig = [shim.SymArray(list(a_)) if a_.dtype == object else a_ for a_ in x_orig]
            L1 = hist.snapshot(calc.Lij(*x))
            # the caller's own buffer (the omega0 transition-state energies it passed) is edited in place
            for k in range(len(x[3])):
                x[3][k] = x[3][k] + d
            stub = calc.GFcalc
            calc.GFcalc = real_gf
            store = new_store()
            calc.addhdf5(store.create_group('D') if REPLAY else store)
            calc.GFcalc = stub
            copy_ = OnsagerCalc.VacancyMediated.loadhdf5(store['D'] if REPLAY else store)
            if sym:
                copy_.GFcalc = stub
            Lo = copy_.Lij(*x_orig)
            for n, t in enumerate(hist.TENSORS):
                ob('original-input-%s' % t, same_tensor(Lo[n], L1[n], sym))
            ref = hist.snapshot(fresh.Lij(*x))
            Le = copy_.Lij(*x)
            for n, t in enumerate(hist.TENSORS):
                ob('edited-input-%s' % t, same_tensor(Le[n], ref[n], sym))
            if sym:
                obs.append(('twin:%s' % name, same_tensor(Le[0], L1[0], True)))
        return obs
    return fn


def _zeros(calc, tag):
    d = {}
    for nm, n in (('bFV', len(calc.sitelist)), ('bFS', len(calc.sitelist)), ('bFSV', calc.thermo.Nstars), ('bFT0', len(calc.om0_jn)),
                  ('bFT1', len(calc.om1_jn)), ('bFT2', len(calc.om2_jn))):
        for k in range(n):
            d['%s%s_%d' % (tag, nm, k)] = 0.0
    return d


# ---- cache contents (any calculator, no Lij needed) ----------------------------------------------------
def cache_roundtrip(cfg):
    """the three cache dictionaries hold ARBITRARY symbolic arrays under symbolic keys; save, reload, compare entry by entry"""
    def fn(src=None):
        src = src or Src()
        calc = hist.get_calc(cfg)
        name = 'cache:' + cfg
        sym = src.symbolic
        calc.clearcache()
        real_gf = getattr(calc, 'GFcalc_real', calc.GFcalc)
        calc.GFcalc = real_gf
        obs = []
        info = src.info(replayer='cache', extra={'cfg': cfg})
        with shim.symbolic_mode():
            ENG.allow_hash = True
            nW, nT = len(calc.sitelist), len(calc.om0_jn)
            keys = []
            for k in range(2):
                keys.append(OnsagerCalc.vacancyThermoKinetics(pre=np.ones(nW), betaene=src.reals('k%dene' % k, nW, -4, 4),
                                                               preT=np.ones(nT), betaeneT=src.reals('k%deneT' % k, nT, -4, 4)))
            if sym:
                ENG.assume(core.Or(*[x != y for f in (1, 3) for x, y in zip(keys[0][f], keys[1][f])]))
            elif all(np.all(keys[0][f] == keys[1][f]) for f in range(4)):
                return obs
            shapes = {'GFvalues': (calc.GFstarset.Nstars,), 'Lvvvalues': (calc.dim, calc.dim), 'etavvalues': (calc.N, calc.dim)}
            for cn, shp in shapes.items():
                for k in range(2):
                    getattr(calc, cn)[keys[k]] = src.reals('%s%d' % (cn[:3], k), shp, -8, 8)
            store = new_store()
            calc.addhdf5(store.create_group('D') if REPLAY else store)
            copy_ = OnsagerCalc.VacancyMediated.loadhdf5(store['D'] if REPLAY else store)
            for cn in shapes:
                c0, c1 = getattr(calc, cn), getattr(copy_, cn)
                oks = [len(c1) == len(c0)]
                for k_, v_ in c0.items():
                    got = c1.get(k_)
                    oks.append(False if got is None else same_tensor(got, v_, sym))
                obs.append(('%s:%s' % (name, cn), core.And(*oks) if sym else all(bool(o) for o in oks), dict(info, sig='cache:' + cn)))
            if sym:
                obs.append(('twin:%s' % name, same_tensor(calc.Lvvvalues[keys[0]], calc.Lvvvalues[keys[1]], True)))
        calc.clearcache()
        return obs
    return fn


# ---- helpers -----------------------------------------------------------------------------------------
def helper_laws(case):
    def fn(src=None):
        src = src or Src()
        name = 'helpers:%d' % case
        sym = src.symbolic
        obs = []
        info = src.info(replayer='helpers', extra={'case': case})

        def ob(n, val):
            obs.append(('%s:%s' % (name, n), val, dict(info, sig='helpers:' + n)))
        with shim.symbolic_mode():
            ENG.allow_hash = True
            # dictionary keyed by thermodynamic keys -> arrays -> dictionary
            nk = 2 + case % 2
            keys, vals = [], []
            for k in range(nk):
                keys.append(OnsagerCalc.vacancyThermoKinetics(pre=src.reals('k%dpre' % k, 2, 0.125, 8), betaene=src.reals('k%dene' % k, 2, -8, 8),
                                                               preT=src.reals('k%dpreT' % k, 3, 0.125, 8), betaeneT=src.reals('k%deneT' % k, 3, -8, 8)))
                vals.append(src.reals('val%d' % k, (2, 2), -8, 8))
            if sym:
                # distinct keys (a dictionary cannot hold the same key twice)
                for a in range(nk):
                    for b in range(a + 1, nk):
                        ENG.assume(core.Or(*[x != y for f in range(4) for x, y in zip(keys[a][f], keys[b][f])]))
            dct = {}
            for k_, v_ in zip(keys, vals):
                dct[k_] = v_
            store = new_store()
            A, B, C = OnsagerCalc.vTKdict2arrays(dct)
            store['vTK'], store['values'], store['splits'] = A, B, C
            back = OnsagerCalc.arrays2vTKdict(store['vTK'], store['values'], store['splits'])
            ob('vTKdict-size', len(back) == len(dct))
            okk = []
            for k_, v_ in zip(keys, vals):
                got = back.get(k_)
                okk.append(got is not None and (harness.exact_eq(got, v_) if sym else bool(np.all(np.asarray(got) == v_))))
            ob('vTKdict-roundtrip', core.And(*okk) if sym else all(okk))
            ob('vTKdict-empty', OnsagerCalc.arrays2vTKdict(*OnsagerCalc.vTKdict2arrays({})) == {})
            # list of lists <-> flat list + index
            lens = [int(src.int('len0', 0, 2)), 1, int(src.int('len2', 0, 2))]
            ll = [[src.int('e%d_%d' % (a, b), -9, 9) for b in range(lens[a])] for a in range(3)]
            flat, idx = stars.doublelist2flatlistindex(ll)
            if len(flat):
                back2 = stars.flatlistindex2doublelist(flat, idx)
                # (empty trailing lists cannot be represented: documented behaviour of the flat form)
                want = ll[:max(i for i, l in enumerate(ll) if l) + 1] if any(ll) else []
                same = len(back2) == len(want) and all(len(p) == len(q) for p, q in zip(back2, want))
                ob('doublelist-roundtrip', same and (core.And(*[core.sb(p == q) for a, b in zip(back2, want) for p, q in zip(a, b)]) if sym else
                                                     all(p == q for a, b in zip(back2, want) for p, q in zip(a, b))))
            # pair states <-> arrays
            PS = stars.PairState
            # (lattice vectors concrete: PSlist2array stores them in an int64 array, which would case-split every value)
            pslist = [PS(i=k, j=2 - k, R=np.array([k - 1, 2 * k, -3]),
                         dx=src.reals('ps%ddx' % k, 3, -8, 8)) for k in range(2)]
            ij, R, dx = stars.PSlist2array(pslist)
            st2 = new_store()
            st2['ij'], st2['R'], st2['dx'] = ij, R, dx
            back3 = stars.array2PSlist(st2['ij'][()], st2['R'][()], st2['dx'][()])
            c3 = []
            for p, q in zip(pslist, back3):
                c3.append(p.i == q.i and p.j == q.j)
                c3.append(harness.exact_eq(p.R, q.R))
                c3.append(harness.exact_eq(p.dx, q.dx))
            ob('pairstate-roundtrip', core.And(*c3) if sym else all(bool(c) for c in c3))
            if sym:
                obs.append(('twin:%s' % name, harness.exact_eq(vals[0], vals[1])))
        return obs
    return fn


# ---- Taylor expansions -------------------------------------------------------------------------------
def taylor_roundtrip(dim):
    def fn(src=None):
        src = src or Src()
        name = 'taylor:%dD' % dim
        sym = src.symbolic
        T = PE.Taylor3D if dim == 3 else PE.Taylor2D
        T()
        obs = []
        info = src.info(replayer='taylor', extra={'dim': dim})
        with shim.symbolic_mode():
            terms = [(n, l, src.reals('c%d%d' % (n, l), (T.powlrange[l], 2, 2), -1, 1)) for (n, l) in ((-2, 0), (0, 2), (1, 4), (2, 1))]
            a = T(terms)
            store = new_store()
            a.addhdf5(store.create_group('T') if REPLAY else store)
            b = T.loadhdf5(store['T'] if REPLAY else store)
            ok = len(a.coefflist) == len(b.coefflist) and all(x[0] == y[0] and x[1] == y[1] for x, y in zip(a.coefflist, b.coefflist))
            obs.append(('%s:structure' % name, ok, dict(info, sig='taylor:structure')))
            if ok:
                cs = [harness.exact_eq(x[2], y[2]) if sym else bool(np.all(np.asarray(x[2]) == np.asarray(y[2]))) for x, y in zip(a.coefflist, b.coefflist)]
                obs.append(('%s:coefficients' % name, core.And(*cs) if sym else all(cs), dict(info, sig='taylor:coefficients')))
                u = np.array([1., 2., 2.][:dim]) / (3. if dim == 3 else np.sqrt(5.))
                ea, eb = a(u), b(u)
                ce = [harness.exact_eq(np.asarray(ea[k], dtype=object).ravel(), np.asarray(eb[k], dtype=object).ravel()) if sym else
                      bool(np.allclose(ea[k], eb[k], rtol=0, atol=0)) for k in ea]
                obs.append(('%s:evaluation' % name, core.And(*ce) if sym else all(ce), dict(info, sig='taylor:evaluation')))
            if sym:
                obs.append(('twin:%s' % name, harness.exact_eq(terms[0][2], terms[0][2] + 1)))
        return obs
    return fn


# ---- concrete structures: star sets, vector star sets, Green-function calculator --------------------------
def deep_equal(a, b, depth=0):
    """structural equality of plain data (numbers, strings, arrays, lists / tuples, dicts, sets); objects of library classes are
    compared through their attribute dictionaries (cycle guard by depth); anything else by type only"""
    if depth > 6:
        return True
    if isinstance(a, np.ndarray) or isinstance(b, np.ndarray):
        try:
            a_, b_ = np.asarray(a), np.asarray(b)
            return a_.shape == b_.shape and bool(np.all(a_ == b_))
        except Exception:   # noqa
            return False
    if isinstance(a, (int, float, complex, str, bool, type(None), np.integer, np.floating)):
        if isinstance(a, (str, type(None))):
            return a == b
        return isinstance(b, (int, float, complex, bool, np.integer, np.floating)) and bool(a == b)
    if isinstance(a, (list, tuple)):
        return isinstance(b, (list, tuple)) and len(a) == len(b) and all(deep_equal(x, y, depth + 1) for x, y in zip(a, b))
    if isinstance(a, dict):
        if not isinstance(b, dict) or len(a) != len(b):
            return False
        try:
            return all(k in b and deep_equal(v, b[k], depth + 1) for k, v in a.items())
        except TypeError:
            return True
    if isinstance(a, (set, frozenset)):
        return isinstance(b, (set, frozenset)) and len(a) == len(b)
    if type(a) is not type(b):
        return False
    if hasattr(a, '__eq__') and type(a).__module__.startswith('onsager') and type(a).__name__ in ('PairState', 'GroupOp', 'ClusterSite'):
        return bool(a == b)
    if hasattr(a, '__dict__') and type(a).__module__.startswith('onsager') and type(a).__name__ in ('StarSet', 'VectorStarSet'):
        return all(deep_equal(v, b.__dict__.get(k), depth + 1) for k, v in a.__dict__.items() if k not in ('crys', 'starset'))
    return True


def struct_roundtrip(cfg):
    def fn(src=None):
        src = src or Src()
        calc = hist.get_calc(cfg)
        name = 'struct:' + cfg
        obs = []
        info = src.info(replayer='struct', extra={'cfg': cfg})

        def ob(n, val):
            obs.append(('%s:%s' % (name, n), val, dict(info, sig='struct:' + n)))
        crys = calc.crys
        for nm, ss in (('thermo', calc.thermo), ('kinetic', calc.kinetic), ('GFstarset', calc.GFstarset)):
            st = new_store()
            ss.addhdf5(st.create_group('S') if REPLAY else st)
            s2 = stars.StarSet.loadhdf5(crys, st['S'] if REPLAY else st)
            ob('starset-%s' % nm, s2.Nstates == ss.Nstates and s2.states == ss.states and [list(a) for a in s2.stars] == [list(a) for a in ss.stars] and np.array_equal(s2.index, ss.index)
               and s2.Nshells == ss.Nshells and all(np.allclose(a.dx, b.dx) for a, b in zip(s2.states, ss.states)))
        st = new_store()
        calc.vkinetic.addhdf5(st.create_group('V') if REPLAY else st)
        v2 = stars.VectorStarSet.loadhdf5(calc.kinetic, st['V'] if REPLAY else st)
        ob('vectorstarset', v2.Nvstars == calc.vkinetic.Nvstars and all(list(a) == list(b) for a, b in zip(v2.vecpos, calc.vkinetic.vecpos))
           and all(np.allclose(np.array(a), np.array(b), atol=0) for a, b in zip(v2.vecvec, calc.vkinetic.vecvec))
           and np.allclose(v2.outer, calc.vkinetic.outer, atol=0))
        gf = getattr(calc, 'GFcalc_real', calc.GFcalc)
        # the reloaded calculators carry the same data as the originals, attribute by attribute (everything that both have)
        keep = calc.GFcalc
        calc.GFcalc = gf
        calc.clearcache()
        st = new_store()
        calc.addhdf5(st.create_group('D') if REPLAY else st)
        c2 = OnsagerCalc.VacancyMediated.loadhdf5(st['D'] if REPLAY else st)
        calc.GFcalc = keep
        bad = sorted(k for k, v in calc.__dict__.items() if k in c2.__dict__ and k not in ('crys', 'GFcalc', 'GFcalc_real', 'GFvalues', 'Lvvvalues', 'etavvalues')
                     and v is not None and not deep_equal(v, c2.__dict__[k]))
        ob('vacancymediated-attributes-equal', not bad)
        # ... and lacks none of them (an attribute that only __init__ sets makes a later method of the reloaded object fail)
        lacking = sorted(k for k in calc.__dict__ if k not in c2.__dict__ and k not in ('GFcalc_real',))
        ob('vacancymediated-has-every-attribute', not lacking)
        st = new_store()
        gf.addhdf5(st.create_group('G') if REPLAY else st)
        g2 = GFcalc.GFCrystalcalc.loadhdf5(crys, st['G'] if REPLAY else st)
        badg = sorted(k for k, v in gf.__dict__.items() if k in g2.__dict__ and k not in ('crys',) and v is not None and not callable(v)
                      and not deep_equal(v, g2.__dict__[k]))     # (None: state that only SetRates fills)
        ob('gfcalc-attributes-equal', not badg)
        pre = np.ones(len(calc.sitelist))
        ene = 0.125 * np.arange(len(calc.sitelist))
        preT = np.ones(len(calc.om0_jn))
        eneT = 1.0 + 0.25 * np.arange(len(calc.om0_jn))
        gf.SetRates(pre, ene, preT, eneT)
        g2.SetRates(pre, ene, preT, eneT)
        same = np.allclose(gf.Diffusivity(), g2.Diffusivity(), rtol=0, atol=1e-14)
        for s in calc.GFstarset.stars[:6]:
            PSs = calc.GFstarset.states[s[0]]
            same = same and abs(gf(PSs.i, PSs.j, PSs.dx) - g2(PSs.i, PSs.j, PSs.dx)) <= 1e-13
        ob('gfcalc-same-results', bool(same))
        return obs
    return fn


def sections(tier):
    S = run.Section
    secs = []
    bud = 175 if tier == 'quick' else 1200
    for cfg in (('square-1', 'rumple2d-1', 'rect2-1', 'sq3-1') if tier == 'quick' else ('square-1', 'rumple2d-1', 'rect2-1', 'sq3-1', 'sc-1', 'square-2')):
        secs.append(S('cache:' + cfg, cache_roundtrip(cfg), budget_s=bud, replayer='cache', config=cfg, maxpaths=64, timeout_ms=20000))
        if tier == 'quick' and cfg != 'square-1':
            secs.append(S('struct:' + cfg, struct_roundtrip(cfg), budget_s=bud, replayer='struct', config=cfg, maxpaths=2))
            continue
        for pop in (True, False):
            light = (tier == 'quick' and cfg != 'square-1')
            if light and not pop:
                continue
            secs.append(S('vm:%s:%s' % (cfg, 'cached' if pop else 'empty'), vm_roundtrip(cfg, pop, light), budget_s=bud, replayer='vm', config=cfg,
                          maxpaths=64, timeout_ms=20000))
        if cfg != 'rumple2d-s':     # (its two-class network does not percolate: the real Green-function calculator refuses it)
            secs.append(S('struct:' + cfg, struct_roundtrip(cfg), budget_s=bud, replayer='struct', config=cfg, maxpaths=2))
    for cfg in (('square-1',) if tier == 'quick' else ('square-1', 'rect2-1', 'sc-1')):
        secs.append(S('vm-inputedit:' + cfg, vm_inputedit(cfg), budget_s=bud, replayer='vminputedit', config=cfg, maxpaths=64, timeout_ms=20000))
    for case in (0, 1):
        secs.append(S('helpers:%d' % case, helper_laws(case), budget_s=bud, replayer='helpers', config='helpers', maxpaths=3000, timeout_ms=20000))
    for dim in (3, 2):
        secs.append(S('taylor:%dD' % dim, taylor_roundtrip(dim), budget_s=bud, replayer='taylor', config='taylor', maxpaths=4))
    return secs


def main():
    import warnings
    warnings.simplefilter('ignore')
    if REPLAY:
        run.replay_main('C13', {
            'cache': lambda rec: harness.run_laws_concrete(cache_roundtrip(rec['extra']['cfg']), rec),
            'vminputedit': lambda rec: harness.run_laws_concrete(vm_inputedit(rec['extra']['cfg']), rec),
            'vm': lambda rec: harness.run_laws_concrete(vm_roundtrip(rec['extra']['cfg'], rec['extra']['populated'], rec['extra'].get('light', False)), rec),
            'helpers': lambda rec: harness.run_laws_concrete(helper_laws(rec['extra']['case']), rec),
            'taylor': lambda rec: harness.run_laws_concrete(taylor_roundtrip(rec['extra']['dim']), rec),
            'struct': lambda rec: harness.run_laws_concrete(struct_roundtrip(rec['extra']['cfg']), rec)})
    V = OnsagerCalc.VacancyMediated
    chk = run.Check(
        'C13',
        functions=[loader.func_hash(f) for f in (V.addhdf5, V.loadhdf5, OnsagerCalc.vTKdict2arrays, OnsagerCalc.arrays2vTKdict,
                                                 stars.doublelist2flatlistindex, stars.flatlistindex2doublelist, stars.PSlist2array,
                                                 stars.array2PSlist, stars.StarSet.addhdf5, stars.StarSet.loadhdf5, stars.VectorStarSet.addhdf5,
                                                 stars.VectorStarSet.loadhdf5, GFcalc.GFCrystalcalc.addhdf5, GFcalc.GFCrystalcalc.loadhdf5,
                                                 PE.Taylor3D.addhdf5, PE.Taylor3D.loadhdf5)],
        assumptions=[
            'HDF5 store replaced by an in-memory stub with the contract the library relies on: g[name]=v stores np.array(v) (name must be new), '
            'g[name][()] / [:] / iteration / len return it, attrs, create_group, "in", name-sorted items(); replays use real h5py (core driver)',
            'VacancyMediated round trip: Lij compared by uninterpreted abstraction (see C14): cached GF/Lvv/eta values, interaction and '
            'transition-state inputs symbolic; vacancy/solute site energies fixed to zero; the Green-function calculator object is saved by its '
            'own concrete addhdf5 and stands behind the same environment stub for original and copy',
            'star sets, vector star sets and the Green-function calculator carry no continuous input: their round trips are compared '
            'attribute by attribute (and GF results) on the same run',
            'the YAML half of the property (crystals, group operations, pair states, cluster sites, clusters) is NOT covered',
        ],
        explanation='Real addhdf5/loadhdf5 of VacancyMediated (cache populated or not), helper conversions and Taylor expansions executed on '
                    'symbolic contents against an in-memory HDF5 stub; reloaded objects give term-identical results, tags and cache.',
        bounds='cache contents: square-1, rumple2d-1 (origin states), rect2-1 (+sc-1, square-2 thorough); full Lij round trip: square-1 (quick), all (thorough); helper arrays <= 3 entries; Taylor expansions 2-D/3-D with 4 terms of shape (2,2)')
    chk.run(sections(chk.tier))
    chk.finish()


if __name__ == '__main__':
    main()
