#!/bin/sh
# offline bootstrap of the checker's virtualenv: overlay on /venv (numpy, scipy, h5py, numba, yaml)
set -e
HERE="$(cd "$(dirname "$0")" && pwd)"
cd "$HERE"
if [ ! -x .venv/bin/python ]; then
  /venv/bin/python -m venv .venv
fi
SP=$(.venv/bin/python -c "import sysconfig; print(sysconfig.get_paths()['purelib'])")
echo "import site; site.addsitedir('/venv/lib/python3.12/site-packages')" > "$SP/_overlay.pth"
PIP_NO_INDEX=1 .venv/bin/pip install -q --no-index --find-links /opt/veriftools/wheels z3-solver cvc5 jsonschema
.venv/bin/python -c "import z3, numpy, scipy; print('setup ok: z3', z3.get_version_string(), 'numpy', numpy.__version__)"
