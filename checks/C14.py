"""C14 vacancy-mediated results depend only on their inputs, not on call history.

Purity by uninterpreted abstraction (DESIGN 2.3): the real VacancyMediated.Lij runs on fully
symbolic inputs; LAPACK calls, exp, sqrt and the Green-function calculator are memoised
uninterpreted functions (same argument terms => same result terms).  Two executions agree iff
the data reaching those functions and the arithmetic around them agree, so any hidden state,
aliasing with arrays handed to the caller, or stale cache shows up as a satisfiable difference."""
import os
import sys

import numpy as np

from symx import run, loader

REPLAY = run.is_replay()
if REPLAY:
    loader.install_plain()
else:
    loader.install()

from onsager import crystal, OnsagerCalc   # noqa: E402
from onsager import GFcalc as GFmod   # noqa: E402
from symx import core, harness, contracts, shim   # noqa: E402
from symx.core import ENG, Sym   # noqa: E402
from symx.shim import SymArray   # noqa: E402

TENSORS = ['L0vv', 'Lss', 'Lsv', 'L1vv']


def configs():
    a = np.array
    return {
        'square-1': (lambda: crystal.Crystal(np.eye(2), [a([0., 0.])]), 0, 1.01, 1),
        'sc-1': (lambda: crystal.Crystal(np.eye(3), [a([0., 0., 0.])]), 0, 1.01, 1),
        'rect2-1': (lambda: crystal.Crystal(a([[1., 0.], [0., 1.25]]), [[a([0., 0.]), a([0.5, 0.5])]], noreduce=True), 0, 0.9, 1),
        # three sites of one species in TWO Wyckoff sets (corner + the two edge centres), omega0 jumps between the sets
        'sq3-1': (lambda: crystal.Crystal(np.eye(2), [a([0., 0.]), a([0.5, 0.]), a([0., 0.5])]), 0, 0.6, 1),
        'square-2': (lambda: crystal.Crystal(np.eye(2), [a([0., 0.])]), 0, 1.01, 2),
        'rect2-2': (lambda: crystal.Crystal(a([[1., 0.], [0., 1.25]]), [[a([0., 0.]), a([0.5, 0.5])]], noreduce=True), 0, 0.9, 2),
        'sc-2': (lambda: crystal.Crystal(np.eye(3), [a([0., 0., 0.])]), 0, 1.01, 2),
        # two sites related by inversion, each with only a mirror: non-empty site vector basis (origin-state corrections active)
        'rumple2d-1': (lambda: crystal.Crystal(a([[1., 0.], [0., 1.25]]), [[a([0., 0.1]), a([0., 0.9])]], noreduce=True), 0, 1.05, 1),
        'rumple2d-s': (lambda: crystal.Crystal(a([[1., 0.], [0., 2.]]), [[a([0., 0.1]), a([0., 0.9])]], noreduce=True), 0, 1.05, 1),
    }


_CALC = {}


def get_calc(cfg):
    if cfg not in _CALC:
        mk, chem, cut, nth = configs()[cfg]
        crys = mk()
        _CALC[cfg] = OnsagerCalc.VacancyMediated(crys, chem, crys.sitelist(chem), crys.jumpnetwork(chem, cut), nth)
    return _CALC[cfg]


class GFstub:
    """nondeterministic environment standing in for GFCrystalcalc: results are arbitrary but a function of the
    rates (memoised on the argument terms); like the real one, every SetRates creates NEW arrays, Diffusivity()
    and biascorrection() return the stored arrays themselves"""

    def __init__(self, calc):
        self.dim = calc.dim
        self.N = calc.N
        self.nsets = 0

    def SetRates(self, pre, betaene, preT, betaeneT, **kw):
        args = (np.asarray(pre, dtype=object), np.asarray(betaene, dtype=object), np.asarray(preT, dtype=object),
                np.asarray(betaeneT, dtype=object))
        self.args = args
        self.nsets += 1
        self.D = contracts.uf_array('GF_D', args, (self.dim, self.dim)).copy()
        self.eta = contracts.uf_array('GF_eta', args, (self.N, self.dim)).copy()

    def Diffusivity(self):
        return self.D

    def biascorrection(self):
        return self.eta

    def __call__(self, i, j, dx):
        return contracts.uf_array('GF_g', self.args + (int(i), int(j), tuple(float(x) for x in np.round(dx, 8))), (1,))[0]


class RealGFrecorder:
    pass


def sym_inputs(calc, tag):
    def arr(name, n):
        out = []
        for k in range(n):
            v = Sym(core.z3.Real('%s%s_%d' % (tag, name, k)))
            # input domain: [1/16, 8] (positive and away from zero: the raw-bytes model of the cache key equates numerically
            # equal values, which real bytes do except for +0.0 / -0.0)
            ENG.assume(v >= 0.0625)
            ENG.assume(v <= 8)
            out.append(v)
        return SymArray(out)
    return (arr('bFV', len(calc.sitelist)), arr('bFS', len(calc.sitelist)), arr('bFSV', calc.thermo.Nstars),
            arr('bFT0', len(calc.om0_jn)), arr('bFT1', len(calc.om1_jn)), arr('bFT2', len(calc.om2_jn)))


def conc_inputs(calc, vals, tag):
    def arr(name, n):
        return np.array([float(vals['%s%s_%d' % (tag, name, k)]) for k in range(n)])
    return (arr('bFV', len(calc.sitelist)), arr('bFS', len(calc.sitelist)), arr('bFSV', calc.thermo.Nstars),
            arr('bFT0', len(calc.om0_jn)), arr('bFT1', len(calc.om1_jn)), arr('bFT2', len(calc.om2_jn)))


def input_dict(*argsets):
    d = {}
    for args in argsets:
        for a in args:
            for x in a:
                d[str(x.z)] = x
    return d


def probes(inputs, n=2):
    """point instantiations of the symbolic inputs (dyadic values), offered when a universal query is undecided"""
    vals = [0.25, 2.5, 0.75, 1.25, 3.125, 0.5, 1.0, 1.75, 0.375, 1.5, 2.25, 0.625, 0.875]
    out = []
    for k in range(n):
        def mk(k=k):
            ih = [v == vals[(i * 5 + 3 * k) % len(vals)] for i, (nm, v) in enumerate(sorted(inputs.items()))]
            uh = contracts.uf_point_assignment(k, ih)
            return None if uh is None else ih + uh
        out.append(mk)
    # probes ON the path (inputs from a model of the linear part of the path condition)
    out.append(lambda: contracts.pc_point_probe(inputs, 0))
    out.append(lambda: contracts.pc_point_probe(inputs, 1, uf_from_model=True))
    return out


def snapshot(L):
    return [np.array(x, dtype=object).copy() if isinstance(x, np.ndarray) and x.dtype == object else np.array(x).copy() for x in L]


def same(a, b, symbolic):
    if symbolic:
        return harness.exact_eq(a, b)
    a, b = np.asarray(a, dtype=float), np.asarray(b, dtype=float)
    return bool(np.abs(a - b).max() <= 1e-12 * max(np.abs(a).max(), 1e-300))


PROGRAMS = {
    # name: steps; 'x'/'y' = Lij with that input, 'E<n>' = the caller edits the arrays returned by call n in place, 'C' = clearcache
    'edit': ['x', 'E0', 'x'],
    'interleave': ['x', 'y', 'x', 'y'],
    'clear': ['x', 'C', 'x'],
    'edit-miss': ['x', 'E0', 'C', 'x'],
    'edit-hit': ['x', 'x', 'E1', 'x'],
    'edit-other': ['x', 'y', 'E1', 'x', 'y'],
    'edit-both': ['x', 'E0', 'y', 'E1', 'y', 'x'],
    'edit-clear-hit': ['x', 'C', 'x', 'E1', 'x'],
    'hit-edit-first': ['x', 'x', 'E0', 'x'],
    'three': ['x', 'y', 'x', 'E2', 'y', 'E3', 'x'],
}


def scenario(cfg, kind, large):
    """a call history (PROGRAMS[kind]) on one long-lived calculator; EVERY answer must equal the answer a fresh calculator
    (deep copy taken before the history) gives for that input"""
    def fn(src=None):
        import copy
        calc = get_calc(cfg)
        name = 'hist:%s:%s:%s' % (cfg, kind, 'large' if large else 'std')
        symbolic = src is None
        dim = calc.dim
        calc.clearcache()
        lom2 = 1e-300 if large else 1e8
        prog = PROGRAMS[kind]
        if symbolic:
            ENG.uf_mode = True
            ENG.allow_hash = True
            calc.GFcalc_real = getattr(calc, 'GFcalc_real', calc.GFcalc)
            calc.GFcalc = GFstub(calc)
            x = sym_inputs(calc, 'x')
            y = sym_inputs(calc, 'y')
            delta = [SymArray([[Sym(core.z3.Real('delta%d_%d%d' % (n, i, j))) for j in range(dim)] for i in range(dim)]) for n in range(4)]
            inputs = input_dict(x, y)
            for dl in delta:
                for e in dl.flat:
                    inputs[str(e.z)] = e
            ctx = shim.symbolic_mode()
        else:
            calc.GFcalc = getattr(calc, 'GFcalc_real', calc.GFcalc)
            v = src.vals
            x = conc_inputs(calc, v, 'x')
            y = conc_inputs(calc, v, 'y')
            delta = [np.array([[float(v['delta%d_%d%d' % (n, i, j)]) for j in range(dim)] for i in range(dim)]) for n in range(4)]
            inputs = {}
            import contextlib
            ctx = contextlib.nullcontext()
        info = {'inputs': inputs, 'replayer': 'hist', 'extra': {'cfg': cfg, 'kind': kind, 'large': large}}
        if symbolic:
            info['probe'] = probes(inputs)
            info['probe_first'] = True
        obs = []
        args = {'x': x, 'y': y}
        with ctx:
            # reference answers: a calculator that has seen nothing else (one deep copy per input)
            ref = {}
            fresh0 = copy.deepcopy(calc)     # for the vacuity twin: a calculator with an empty cache
            if symbolic:
                fresh0.GFcalc = GFstub(fresh0)
            for nm in sorted(set(p for p in prog if p in args)):
                fresh = copy.deepcopy(calc)
                if symbolic:
                    fresh.GFcalc = GFstub(fresh)
                ref[nm] = snapshot(fresh.Lij(*args[nm], large_om2=lom2))
            results = []
            ncall = {}
            for step in prog:
                if step == 'C':
                    calc.clearcache()
                elif step[0] == 'E':
                    for n, arr in enumerate(results[int(step[1:])]):
                        for i in range(dim):
                            for j in range(dim):
                                arr[i, j] = arr[i, j] + delta[n][i, j]
                else:
                    L = calc.Lij(*args[step], large_om2=lom2)
                    results.append(L)
                    k = ncall.get(step, 0)
                    ncall[step] = k + 1
                    got = snapshot(L)
                    for n, tname in enumerate(TENSORS):
                        tag = tname if (step == 'x' and k == ncall.get('x', 0) - 1 and step == prog[-1] and False) else '%s%d-%s' % (step, k, tname)
                        obs.append(('%s:%s' % (name, tag), same(got[n], ref[step][n], symbolic), dict(info, sig='%s:%s' % (kind, tname))))
            if symbolic:
                try:
                    obs.append(('twin:%s:differs-from-y' % name, same(ref['x'][1], fresh0.Lij(*y, large_om2=lom2)[1], True)))
                except Exception:   # noqa  (the twin must never take the section down)
                    pass
        return obs
    return fn


def regen(cfg_from, cfg_to):
    """range regeneration: a calculator built with one thermodynamic range answers a query, is regenerated IN PLACE with another
    range (generate + generatematrices, as the constructor does) and must then answer exactly like a calculator freshly built
    with that range, for every input"""
    def fn(src=None):
        import copy
        symbolic = src is None
        name = 'regen:%s->%s' % (cfg_from, cfg_to)
        calc = copy.deepcopy(get_calc(cfg_from))
        fresh = copy.deepcopy(get_calc(cfg_to))
        for c in (calc, fresh):
            c.GFcalc = getattr(c, 'GFcalc_real', c.GFcalc)
            c.clearcache()
        nth = fresh.Nthermo
        if symbolic:
            ENG.uf_mode = True
            ENG.allow_hash = True
            calc.GFcalc, fresh.GFcalc = GFstub(calc), GFstub(fresh)
            w = sym_inputs(calc, 'w')
            x = sym_inputs(fresh, 'x')
            inputs = input_dict(w, x)
            ctx = shim.symbolic_mode()
        else:
            import contextlib
            w = conc_inputs(calc, src.vals, 'w')
            x = conc_inputs(fresh, src.vals, 'x')
            inputs = {}
            ctx = contextlib.nullcontext()
        info = {'inputs': inputs, 'replayer': 'regen', 'extra': {'cfg_from': cfg_from, 'cfg_to': cfg_to}}
        if symbolic:
            info['probe'] = probes(inputs)
            info['probe_first'] = True
        obs = []

        def mode():
            return shim.symbolic_mode() if symbolic else ctx
        with mode():
            calc.Lij(*w, large_om2=1e8)
        ok_struct, shapes_ok, tags_ok = True, False, False
        try:
            # regeneration takes no continuous input: plain numpy (as in the constructor)
            calc.generate(nth)
            calc.generatematrices()
            if symbolic:
                calc.GFcalc = GFstub(calc)
            # the regenerated object describes the same stars / networks as the fresh one (so that the inputs mean the same)
            st = lambda c: [(int(p.i), int(p.j), tuple(int(r) for r in p.R)) for p in c.kinetic.states]   # noqa: E731
            shapes_ok = (st(calc) == st(fresh) and calc.thermo.Nstars == fresh.thermo.Nstars and len(calc.om1_jn) == len(fresh.om1_jn) and
                         len(calc.om2_jn) == len(fresh.om2_jn))
            ok_struct = shapes_ok and calc.vkinetic.Nvstars == fresh.vkinetic.Nvstars
            # the tag interface describes the regenerated range too (tags2preene sizes its arrays from the tags)
            tags_ok = calc.tags == fresh.tags and calc.tagdict == fresh.tagdict and calc.tagdicttype == fresh.tagdicttype
        except Exception:
            if os.environ.get('VERIF_DEBUG'):
                import traceback
                traceback.print_exc()
            ok_struct = False
        obs.append(('%s:regenerated-structure-equals-fresh' % name, bool(ok_struct), dict(info, sig='regen:structure', witnessed=True)))
        obs.append(('%s:regenerated-tags-equal-fresh' % name, bool(ok_struct and tags_ok), dict(info, sig='regen:tags', witnessed=True)))
        got = None
        if shapes_ok:
            with mode():
                try:
                    got = snapshot(calc.Lij(*x, large_om2=1e8))
                except Exception as e:
                    if type(e).__module__.startswith('symx') or not isinstance(e, (IndexError, ValueError, KeyError, TypeError)):
                        raise
                    obs.append(('%s:Lij-after-regeneration-runs' % name, False, dict(info, sig='regen:Lij-runs', witnessed=True)))
        if got is not None:
            with mode():
                ref = snapshot(fresh.Lij(*x, large_om2=1e8))
                for n, tname in enumerate(TENSORS):
                    obs.append(('%s:%s' % (name, tname), same(got[n], ref[n], symbolic), dict(info, sig='regen:%s' % tname)))
                if symbolic:
                    obs.append(('twin:%s:differs-from-v-query' % name, same(ref[1], snapshot(fresh.Lij(*sym_inputs(fresh, 'v'), large_om2=1e8))[1], True)))
        return obs
    return fn


def gf_inputs(calc, k):
    """concrete vacancy data sets for the validation of the Green-function environment contract; sets 1 and 2 share every
    symmetrised rate (transition state = mean of the end points + constant) but differ in site energies / escape rates"""
    nW, nT = len(calc.sitelist), len(calc.om0_jn)
    ene = [np.zeros(nW), 0.75 * np.arange(nW), 0.5 * np.arange(nW)[::-1], 0.3 * np.arange(nW) ** 2][k]
    eneT = np.zeros(nT)
    for t, jl in enumerate(calc.om0_jn):
        (i, j), dx = jl[0]
        eneT[t] = 0.5 * (ene[calc.invmap[i]] + ene[calc.invmap[j]]) + 1.0 + 0.125 * t
    return np.ones(nW), ene, np.ones(nT), eneT


def gf_state(gf, calc):
    out = [np.array(gf.Diffusivity(), dtype=float).copy(), np.array(gf.biascorrection(), dtype=float).copy()]
    out.append(np.array([gf(calc.GFstarset.states[s[0]].i, calc.GFstarset.states[s[0]].j, calc.GFstarset.states[s[0]].dx)
                         for s in calc.GFstarset.stars[:8]]))
    return out


def gf_contract(cfg):
    """validation of the environment stub used above: the REAL Green-function calculator's results are a function of the
    arguments of the last SetRates only (whatever was set before), compared with a freshly built calculator; concrete runs"""
    def fn(src=None):
        calc = get_calc(cfg)
        name = 'gf-contract:' + cfg
        gf = getattr(calc, 'GFcalc_real', calc.GFcalc)
        obs = []
        info = {'inputs': {}, 'replayer': 'gfcontract', 'extra': {'cfg': cfg}}
        seq = [0, 1, 2, 1, 3, 0]
        for n, k in enumerate(seq):
            args = gf_inputs(calc, k)
            gf.SetRates(*args)
            got = gf_state(gf, calc)
            fresh = GFmod.GFCrystalcalc(calc.crys, calc.chem, calc.sitelist, calc.om0_jn, getattr(calc, 'NGFmax', 4))
            fresh.SetRates(*args)
            want = gf_state(fresh, calc)
            ok = all(np.allclose(a, b, rtol=1e-9, atol=1e-12) for a, b in zip(got, want))
            obs.append(('%s:step%d-input%d' % (name, n, k), bool(ok), dict(info, sig='gf-contract:function-of-last-SetRates', witnessed=True)))
        return obs
    return fn


def gfcalc_history(cfg):
    """GFcalculator(N): the calculator a VacancyMediated object ends up with for a requested mesh parameter must not depend on
    whether an earlier GFcalculator(N) result was thrown away (concrete runs of the real Green-function calculator)"""
    def fn(src=None):
        import copy
        calc = copy.deepcopy(get_calc(cfg))
        calc.GFcalc = getattr(calc, 'GFcalc_real', calc.GFcalc)
        name = 'gfcalc-history:' + cfg
        info = {'inputs': {}, 'replayer': 'gfhistory', 'extra': {'cfg': cfg}}
        N2 = int(getattr(calc, 'NGFmax', 4)) + 2
        calc.GFcalculator(N2)                      # the caller discards the result
        calc.GFcalc = calc.GFcalculator(N2)        # ... and asks again, installing what it gets
        fresh = GFmod.GFCrystalcalc(calc.crys, calc.chem, calc.sitelist, calc.om0_jn, N2)
        same_mesh = list(np.asarray(calc.GFcalc.kptgrid).ravel()) == list(np.asarray(fresh.kptgrid).ravel())
        args = gf_inputs(calc, 1)
        calc.GFcalc.SetRates(*args)
        fresh.SetRates(*args)
        same_val = all(np.allclose(a, b, rtol=1e-9, atol=1e-12) for a, b in zip(gf_state(calc.GFcalc, calc), gf_state(fresh, calc)))
        # coarsening after use: answers obtained with the old mesh must not survive in the cache
        c3 = copy.deepcopy(get_calc(cfg))
        c3.GFcalc = getattr(c3, 'GFcalc_real', c3.GFcalc)
        c3.clearcache()
        xin = (np.zeros(len(c3.sitelist)), np.zeros(len(c3.sitelist)), 0.25 * np.arange(c3.thermo.Nstars), 1.0 + np.zeros(len(c3.om0_jn)),
               1.0 + 0.125 * np.arange(len(c3.om1_jn)), 0.5 + np.zeros(len(c3.om2_jn)))
        N0 = int(getattr(c3, 'NGFmax', 4))
        c3.Lij(*xin)
        c3.GFcalc = c3.GFcalculator(max(1, N0 - 2))
        got = c3.Lij(*xin)
        mk, chem_, cut_, nth_ = configs()[cfg]
        cr = mk()
        f3 = OnsagerCalc.VacancyMediated(cr, chem_, cr.sitelist(chem_), cr.jumpnetwork(chem_, cut_), nth_, max(1, N0 - 2))
        want = f3.Lij(*xin)
        coarse_ok = all(np.allclose(a_, b_, rtol=1e-12, atol=1e-14) for a_, b_ in zip(got, want))
        return [('%s:coarser-mesh-after-use' % name, bool(coarse_ok), dict(info, sig='gfcalc-history:coarsen', witnessed=True)),
                ('%s:mesh-of-the-requested-parameter' % name, bool(same_mesh), dict(info, sig='gfcalc-history:mesh', witnessed=True)),
                ('%s:values-of-the-requested-parameter' % name, bool(same_mesh and same_val), dict(info, sig='gfcalc-history:values', witnessed=True))]
    return fn


def replay(rec):
    e = rec['extra']
    return harness.run_laws_concrete(scenario(e['cfg'], e['kind'], e['large']), rec)


def sections(tier):
    S = run.Section
    secs = []
    cfgs = ['square-1', 'sc-1'] if tier == 'quick' else ['square-1', 'rect2-1', 'sc-1', 'square-2']
    for cfg in cfgs:
        kinds = ['edit', 'interleave', 'clear', 'edit-miss', 'edit-hit', 'edit-other'] if tier == 'quick' else list(PROGRAMS)
        for kind in kinds:
            for large in (False, True):
                if large and (tier == 'quick' and (cfg != 'square-1' or kind in ('clear', 'edit-other'))):
                    continue
                secs.append(S('hist:%s:%s:%s' % (cfg, kind, 'large' if large else 'std'), scenario(cfg, kind, large),
                              budget_s=120 if tier == 'quick' else 1500, timeout_ms=10000 if tier == 'quick' else 20000, replayer='hist', config=cfg, maxpaths=400))
    for a, b in ([('square-1', 'square-2'), ('square-2', 'square-1')] if tier == 'quick' else
                 [('square-1', 'square-2'), ('square-2', 'square-1'), ('rect2-1', 'rect2-2'), ('sc-1', 'sc-2')]):
        secs.append(S('regen:%s->%s' % (a, b), regen(a, b), budget_s=120 if tier == 'quick' else 1500, timeout_ms=10000 if tier == 'quick' else 20000,
                      replayer='regen', config=a, maxpaths=50))
    for cfg in (['square-1'] if tier == 'quick' else ['square-1', 'rect2-1', 'sc-1']):
        secs.append(S('gfcalc-history:' + cfg, gfcalc_history(cfg), budget_s=120, timeout_ms=10000, replayer='gfhistory', config=cfg, maxpaths=2))
    for cfg in (['rect2-1', 'square-1'] if tier == 'quick' else ['rect2-1', 'square-1', 'rumple2d-1', 'sc-1']):
        secs.append(S('gf-contract:' + cfg, gf_contract(cfg), budget_s=120, timeout_ms=10000, replayer='gfcontract', config=cfg, maxpaths=2))
    return secs


def main():
    import warnings
    warnings.simplefilter('ignore')
    if REPLAY:
        run.replay_main('C14', {'hist': replay, 'gfhistory': lambda rec: harness.run_laws_concrete(lambda src: gfcalc_history(rec['extra']['cfg'])(src), rec),
                                'regen': lambda rec: harness.run_laws_concrete(regen(rec['extra']['cfg_from'], rec['extra']['cfg_to']), rec),
                                'gfcontract': lambda rec: harness.run_laws_concrete(lambda src: gf_contract(rec['extra']['cfg'])(src), rec)})
    V = OnsagerCalc.VacancyMediated
    chk = run.Check(
        'C14',
        functions=[loader.func_hash(f) for f in (V.Lij, V._symmetricandescaperates, V.clearcache, V.GFcalculator,
                                                 OnsagerCalc.vacancyThermoKinetics.__hash__, OnsagerCalc.vacancyThermoKinetics.__eq__)],
        assumptions=[
            'LAPACK (inv, pinv, eigh), exp, sqrt are memoised uninterpreted functions: same argument terms => same result terms '
            '(exp > 0, sqrt >= 0); this decides data-flow purity, not numerical values',
            'the Green-function calculator is a nondeterministic environment: SetRates keys on the argument terms; Diffusivity(), '
            'biascorrection() and __call__ return arbitrary values that are a function of that key; like the real calculator each '
            'SetRates creates new arrays and Diffusivity()/biascorrection() return the stored arrays themselves',
            'raw-bytes hashing of the cache key is modelled as: equal iff all numbers equal (no accidental collisions); inputs in [1/16, 8] (so that +0.0 / -0.0, which are equal numbers with different bytes, do not occur)',
            'calculators enumerated: square (2-D, Nthermo 1,2), rect-2-site (2 Wyckoff sets, origin states), SC (3-D); sequences of <= 4 calls; '
            'both large_om2 branches forced through the threshold argument',
            'save/reload histories are covered by C13',
        ],
        explanation='Real Lij executed on fully symbolic inputs in call histories (programs of calls with two inputs, in-place edits of the '
                    'arrays returned by any earlier call by arbitrary symbolic amounts, cache clears); EVERY answer of the history is '
                    'compared term-wise by z3 with the answer of a fresh deep copy of the calculator for that input.',
        bounds='calculators square-1, sc-1 (quick) + rect2-1, square-2 (thorough); histories %s (quick: the first six) x 2 omega2 algorithms' % sorted(PROGRAMS))
    chk.run(sections(chk.tier))
    chk.finish()


if __name__ == '__main__':
    main()
