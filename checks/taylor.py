"""Shared harness for the Taylor-expansion checks (C16, C17): rational unit vectors forming a
unisolvent evaluation set, symbolic coefficient blocks, evaluation helpers."""
import itertools

import numpy as np

from onsager import PowerExpansion as PE

from symx import core, shim, harness
from symx.core import ENG, Sym
from symx.shim import SymArray

T3D = PE.Taylor3D
T2D = PE.Taylor2D
T3D()
T2D()

# Pythagorean quadruples / triples: unit vectors with rational components
RAW3 = [(1, 2, 2), (2, 3, 6), (1, 4, 8), (4, 4, 7), (2, 6, 9), (6, 6, 7), (3, 4, 12), (-1, 2, 2), (2, -3, 6), (1, 4, -8), (-4, 4, 7),
        (2, -6, 9), (6, -6, 7), (-3, 4, 12), (1, -2, -2), (8, 9, 12), (2, 10, 11), (-2, 10, 11), (2, -10, 11), (6, 10, 15),
        (-6, 10, 15), (1, 12, 12), (4, 13, 16), (-4, 13, 16), (3, 16, 24), (-3, 16, 24), (8, 11, 16), (-8, 11, 16), (4, 8, 19),
        (-4, 8, 19), (7, 14, 22), (-7, 14, 22), (12, 15, 16), (-12, 15, 16), (9, 12, 20), (2, 1, 2), (6, 2, 3), (8, 1, 4)]
RAW2 = [(3, 4), (-3, 4), (5, 12), (-5, 12), (8, 15), (-8, 15), (7, 24), (-7, 24), (20, 21), (-20, 21), (4, 3), (12, 5), (15, 8), (-4, 3)]


NPTS = {3: 25, 2: 9}     # smallest unisolvent prefixes (rank checked at run time); thorough tier uses all points


def points(dim, full=False):
    raw = RAW3 if dim == 3 else RAW2
    if not full:
        raw = raw[:NPTS[dim]]
    return [np.array(p, dtype=float) / np.sqrt(float(np.dot(p, p))) for p in raw]


def unisolvent(T, dim, pts):
    """the evaluation set determines every polynomial of degree <= Lmax on the unit sphere/circle:
    the matrix of power vectors has the rank of the projected (Ylm / Fourier) space"""
    M = np.array([T.powexp(p)[0] for p in pts])
    want = (T.Lmax + 1) ** 2 if dim == 3 else 2 * T.Lmax + 1
    return np.linalg.matrix_rank(M, tol=1e-9) == want


def cls(dim):
    return T3D if dim == 3 else T2D


def conc_block(T, rng, l, shape, denom=16):
    b = np.round(rng.uniform(-1, 1, (T.powlrange[l],) + tuple(shape)) * denom) / denom
    if shim.SYMBOLIC[0]:
        # concrete blocks that meet symbolic ones in an in-place += must already be object arrays
        return b.astype(object).view(SymArray)
    return b


def sym_block(src, T, tag, l, shape):
    return src.reals(tag, (T.powlrange[l],) + tuple(shape), -1, 1)


def evalsum(T, u):
    """{n: value of the order-n part at direction u}, through the real __call__ with indicator radial functions
    (a coefficient list may hold several entries with the same n, even the same (n,l): the dictionary form of
    __call__ cannot represent that, the summed form can)"""
    ns = sorted(set(n for n, l, c in T.coefflist))
    keys = [(n, l) for n, l, c in T.coefflist]
    out = {}
    for n0 in ns:
        fnu = {k: (1.0 if k[0] == n0 else 0.0) for k in keys}
        out[n0] = T(u, fnu)
    return out


def same_function(A, B, pts, symbolic, tol=1e-8, chunk=None):
    """A and B (dicts u -> {n: value} producers or expansions) agree at every evaluation point, for every n.
    Returns one obligation (conjunction), or with chunk=k a list of obligations over groups of k points."""
    if chunk:
        return [same_function(A, B, pts[i:i + chunk], symbolic, tol) for i in range(0, len(pts), chunk)]
    conds = []
    for u in pts:
        ea = A(u) if callable(A) and not hasattr(A, 'coefflist') else evalsum(A, u)
        eb = B(u) if callable(B) and not hasattr(B, 'coefflist') else evalsum(B, u)
        for n in set(ea) | set(eb):
            x = ea.get(n, 0)
            y = eb.get(n, 0)
            d = np.asarray(x - y, dtype=object)
            for e in d.flat:
                if isinstance(e, Sym):
                    conds.append(e <= tol)
                    conds.append(e >= -tol)
                else:
                    if isinstance(e, complex) or isinstance(e, np.complexfloating):
                        e = abs(e)
                    if not abs(e) <= tol:
                        return False
    if not conds:
        return True
    return core.And(*conds) if symbolic else all(bool(c) for c in conds)
