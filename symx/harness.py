"""Helpers shared by the checks: a value source that is symbolic inside a check and
concrete inside a replay, so that one law function serves both."""
import numpy as _np
import z3

from . import core
from .core import ENG, Sym, SymBool


class Src:
    """Source of input values.  vals=None: fresh symbolic variables (recorded in .inputs so
    that a counterexample model can be turned into concrete inputs); vals=dict: concrete."""

    def __init__(self, vals=None):
        self.vals = vals
        self.inputs = {}

    @property
    def symbolic(self):
        return self.vals is None

    def int(self, name, lo=None, hi=None):
        if self.vals is not None:
            # (a replay record holds the inputs that existed when the obligation was stated; later ones default)
            return int(self.vals.get(name, lo if lo is not None else 0))
        x = core.Int(name)
        self.inputs[name] = x
        if lo is not None:
            ENG.assume(x >= lo)
        if hi is not None:
            ENG.assume(x <= hi)
        return x

    def real(self, name, lo=None, hi=None):
        if self.vals is not None:
            return float(self.vals.get(name, lo if lo is not None else 0.0))
        x = core.Real(name)
        self.inputs[name] = x
        if lo is not None:
            ENG.assume(x >= lo)
        if hi is not None:
            ENG.assume(x <= hi)
        return x

    def ints(self, name, shape, lo=None, hi=None):
        from .shim import SymArray
        shape = (shape,) if isinstance(shape, int) else tuple(shape)
        if self.vals is not None:
            a = _np.zeros(shape, dtype=int)
            for idx in _np.ndindex(*shape):
                a[idx] = int(self.vals.get('%s_%s' % (name, '_'.join(map(str, idx))), lo if lo is not None else 0))
            return a
        a = _np.empty(shape, dtype=object)
        for idx in _np.ndindex(*shape):
            a[idx] = self.int('%s_%s' % (name, '_'.join(map(str, idx))), lo, hi)
        return a.view(SymArray)

    def reals(self, name, shape, lo=None, hi=None):
        from .shim import SymArray
        shape = (shape,) if isinstance(shape, int) else tuple(shape)
        if self.vals is not None:
            a = _np.zeros(shape, dtype=float)
            for idx in _np.ndindex(*shape):
                a[idx] = float(self.vals.get('%s_%s' % (name, '_'.join(map(str, idx))), lo if lo is not None else 0.0))
            return a
        a = _np.empty(shape, dtype=object)
        for idx in _np.ndindex(*shape):
            a[idx] = self.real('%s_%s' % (name, '_'.join(map(str, idx))), lo, hi)
        return a.view(SymArray)

    def assume(self, cond):
        """state an input-domain assumption; in a replay returns whether it holds"""
        if self.vals is not None:
            return bool(cond)
        ENG.assume(cond)
        return True

    def info(self, sig=None, replayer=None, extra=None):
        d = {'inputs': self.inputs}   # live reference: inputs created later on the path are part of the record too
        if sig:
            d['sig'] = sig
        if replayer:
            d['replayer'] = replayer
        if extra is not None:
            d['extra'] = extra
        return d


def close(a, b, tol=1e-9):
    """|a-b| <= tol componentwise, as one formula (symbolic) or a bool (concrete)"""
    a = _np.asarray(a, dtype=object)
    b = _np.asarray(b, dtype=object)
    if a.shape != b.shape:
        return False
    terms = []
    for x, y in zip(a.flat, b.flat):
        d = x - y
        if isinstance(d, (complex, _np.complexfloating)):
            terms.append(abs(d) <= tol)
            continue
        c1 = d <= tol
        c2 = d >= -tol
        terms.append(c1)
        terms.append(c2)
    if any(isinstance(t, SymBool) for t in terms):
        return core.And(*terms)
    return all(bool(t) for t in terms)


def exact_eq(a, b):
    a = _np.asarray(a, dtype=object)
    b = _np.asarray(b, dtype=object)
    if a.shape != b.shape:
        return False
    terms = [x == y for x, y in zip(a.flat, b.flat)]
    if any(isinstance(t, SymBool) for t in terms):
        return core.And(*terms)
    return all(bool(t) for t in terms)


_CD_CACHE = {}


def clear_denominators(t):
    """(numerator, denominator) z3 terms, both division-free, with t == numerator / denominator wherever the denominators occurring
    in t are non-zero (sums, products, quotients, integer powers and unary minus of real terms; anything else is an atom)."""
    k = t.get_id()
    if k in _CD_CACHE:
        return _CD_CACHE[k][1:]
    one = z3.RealVal(1)
    kind = t.decl().kind() if z3.is_app(t) else None
    ch = t.children() if z3.is_app(t) else []
    if kind == z3.Z3_OP_ADD:
        parts = [clear_denominators(c) for c in ch]
        dens = {}
        for n, d in parts:
            dens[d.get_id()] = d
        dl = list(dens.values())
        den = dl[0] if len(dl) == 1 else z3.Product(*dl)
        nums = []
        for n, d in parts:
            others = [x for x in dl if x.get_id() != d.get_id()]
            nums.append(n if not others else n * (others[0] if len(others) == 1 else z3.Product(*others)))
        res = (z3.Sum(*nums), den)
    elif kind == z3.Z3_OP_MUL:
        parts = [clear_denominators(c) for c in ch]
        res = (z3.Product(*[n for n, d in parts]), z3.Product(*[d for n, d in parts]))
    elif kind == z3.Z3_OP_DIV:
        (n1, d1), (n2, d2) = clear_denominators(ch[0]), clear_denominators(ch[1])
        res = (n1 * d2, d1 * n2)
    elif kind == z3.Z3_OP_UMINUS:
        n, d = clear_denominators(ch[0])
        res = (-n, d)
    elif kind == z3.Z3_OP_SUB:
        return clear_denominators(ch[0] + z3.Sum(*[-c for c in ch[1:]]))
    elif kind == z3.Z3_OP_POWER and z3.is_int_value(z3.simplify(ch[1])) and z3.simplify(ch[1]).as_long() >= 0:
        n, d = clear_denominators(ch[0])
        e = z3.simplify(ch[1]).as_long()
        res = (z3.Product(*([n] * e)) if e else one, z3.Product(*([d] * e)) if e else one)
    elif kind == z3.Z3_OP_TO_REAL:
        res = (t, one)
    else:
        res = (t, one)
    res = (z3.simplify(res[0]), z3.simplify(res[1]))
    _CD_CACHE[k] = (t,) + res
    return res


def rational_eq(a, b):
    """a == b componentwise for rational functions: both sides are brought to numerator / denominator form, cross-multiplied and the
    difference is normalised by z3's simplifier (sum of monomials).  Sound wherever the denominators are non-zero (the harness states
    that: denominators are monomials in positive variables or sums of such)."""
    a = _np.asarray(a, dtype=object)
    b = _np.asarray(b, dtype=object)
    if a.shape != b.shape:
        return False
    terms = []
    for x, y in zip(a.flat, b.flat):
        if not isinstance(x, Sym) and not isinstance(y, Sym):
            terms.append(x == y)
            continue
        n1, d1 = clear_denominators(core.toz(x) if not isinstance(x, Sym) else x.z)
        n2, d2 = clear_denominators(core.toz(y) if not isinstance(y, Sym) else y.z)
        z = z3.simplify(n1 * d2 - n2 * d1, som=True)
        terms.append(SymBool(z == 0))
    if any(isinstance(t, SymBool) for t in terms):
        return core.And(*terms)
    return all(bool(t) for t in terms)


def poly_eq(a, b):
    """a == b componentwise for polynomial terms, each difference brought to sum-of-monomials normal form by z3's simplifier
    first (an identity then simplifies to `0 == 0`; nlsat alone does not finish on identities in 20+ variables)"""
    a = _np.asarray(a, dtype=object)
    b = _np.asarray(b, dtype=object)
    if a.shape != b.shape:
        return False
    terms = []
    for x, y in zip(a.flat, b.flat):
        d = x - y
        if isinstance(d, Sym):
            z = z3.simplify(d.z, som=True, hoist_mul=False)
            terms.append(SymBool(z == 0))
        else:
            terms.append(d == 0)
    if any(isinstance(t, SymBool) for t in terms):
        return core.And(*terms)
    return all(bool(t) for t in terms)


class HashTrace:
    """collect the terms that reach hash() of symbolic values (DESIGN 1.2)"""

    def __enter__(self):
        self.prev = Sym.HASHTRACE
        Sym.HASHTRACE = []
        self.trace = Sym.HASHTRACE
        return self

    def __exit__(self, *a):
        Sym.HASHTRACE = self.prev


def hash_equal(a, b, symbolic):
    """obligation 'hash(a) == hash(b)': concrete -> compares hashes; symbolic -> the two hash
    traces are point-wise equal terms (builtin tuple/bytes hashing is a function of the sequence)"""
    if not symbolic:
        return hash(a) == hash(b)
    with HashTrace() as ta:
        ha = hash(a)
    with HashTrace() as tb:
        hb = hash(b)
    if len(ta.trace) != len(tb.trace):
        return False
    if not ta.trace:
        return ha == hb
    return core.And(*[x == y for x, y in zip([Sym(t) for t in ta.trace], [Sym(t) for t in tb.trace])])


def run_laws_concrete(fn, rec):
    """replay helper: fn(Src(vals)) returns [(name, ok, ...)]; violated iff the named obligation
    (or, if absent on this path, any obligation) evaluates False"""
    src = Src(rec['inputs'])
    obs = fn(src)
    bad = [o[0] for o in obs if not o[0].startswith('twin:') and not bool(o[1])]
    want = rec.get('obligation')
    if want in bad:
        return True, 'obligation %s is False on the real code with inputs %s' % (want, rec['inputs'])
    if bad:
        return True, 'obligations %s are False on the real code (asked for %s) with inputs %s' % (bad, want, rec['inputs'])
    return False, 'all %d obligations hold concretely' % len(obs)
