"""C20 site symmetry analysis gives exact orbits and invariant bases.

(A) every subgroup of m-3m and 6/mmm (enumerated by closure) taken as a site group: the real
    GroupOp.eigen / VectorBasis / SymmTensorBasis / CombineVectorBasis / CombineTensorBasis produce a basis B;
    for a symbolic vector v and symbolic symmetric tensor T:  (h v = v for all h)  <=>  v = P_B v  (both
    directions, QF_LRA), same for tensors; the basis is orthonormal.
(B) every site of the crystal library: Crystal.VectorBasis/SymmTensorBasis against that site's point group,
    the point group fixes its site for every lattice translation (symbolic R), Wyckoff sets are exactly
    the symmetry orbits.
(C) Crystal.Wyckoffpos(u) with a SYMBOLIC position u on crystals with small groups: on every coincidence
    stratum the returned list holds each image g.u exactly once."""
import itertools
import sys
from functools import reduce

import numpy as np

from symx import run, loader

REPLAY = run.is_replay()
if REPLAY:
    loader.install_plain()
else:
    loader.install()

from onsager import crystal   # noqa: E402
from symx import core, harness, shim   # noqa: E402
from symx.core import ENG, Sym   # noqa: E402
from symx.harness import Src   # noqa: E402
sys.path.insert(0, __file__.rsplit('/', 1)[0])
import geom   # noqa: E402

PREM, CONC = 1e-9, 1e-6


def holohedry(kind):
    crys = geom.get_crystal({'cubic': 'sc', 'hex': 'hex1', 'cubic-rot': 'fcc111', 'square2d': 'square', 'hex2d': 'tria'}[kind])
    ops = geom.sorted_ops(crys)
    return crys, ops


_SUB = {}
_GENS = {}


def subgroups(kind):
    """all subgroups (as sorted tuples of operation indices), by closure of up to three generators"""
    if kind in _SUB:
        return _SUB[kind]
    crys, ops = holohedry(kind)
    n = len(ops)
    mats = [np.round(g.cartrot, 9) for g in ops]

    def idx(M):
        for k, Q in enumerate(mats):
            if np.allclose(M, Q, atol=1e-7):
                return k
        raise ValueError
    table = [[idx(np.dot(mats[a], mats[b])) for b in range(n)] for a in range(n)]
    ident = idx(np.eye(crys.dim))

    def closure(gens):
        S = {ident} | set(gens)
        while True:
            new = {table[a][b] for a in S for b in S} - S
            if not new:
                return frozenset(S)
            S |= new
    subs = {closure(())}
    singles = {closure((a,)) for a in range(n)}
    subs |= singles
    pairs = set()
    for a in range(n):
        for b in range(a + 1, n):
            pairs.add(closure((a, b)))
    subs |= pairs
    for H in list(pairs):
        if len(H) < n:
            for c in range(n):
                if c not in H:
                    subs.add(closure(tuple(H) + (c,)))
    out = sorted((tuple(sorted(H)) for H in subs), key=lambda t: (len(t), t))
    # a small generating set per subgroup (greedy): invariance under generators == invariance under the subgroup
    gens = {}
    for H in out:
        g, cur = [], closure(())
        for a in H:
            if a not in cur:
                g.append(a)
                cur = closure(tuple(g))
            if len(cur) == len(H):
                break
        gens[H] = tuple(g)
    _SUB[kind] = out
    _GENS[kind] = gens
    return out


def projector_vec(vb, dim):
    d, v = vb
    if d == 0:
        return np.zeros((dim, dim))
    if d == dim:
        return np.eye(dim)
    if d == 1:
        return np.outer(v, v)
    return np.eye(dim) - np.outer(v, v)


def sym_tensor(src, dim, tag='T'):
    T = np.empty((dim, dim), dtype=object)
    for a in range(dim):
        for b in range(a, dim):
            x = src.real('%s%d%d' % (tag, a, b), -1, 1)
            T[a, b] = x
            T[b, a] = x
    return T


def invariance_obligations(src, hops, dim, vb, tb, name, info, ob, gens=None):
    """hops: Cartesian rotation matrices of the site group; vb (dim, vect); tb list of tensors; gens: matrices of a generating
    set (the premise "invariant under the group" is stated for the generators only: equivalent, and a much smaller query)"""
    sym = src.symbolic
    gens = hops if gens is None else gens
    v = src.reals('v', dim, -1, 1)
    T = sym_tensor(src, dim)
    P = projector_vec(vb, dim)
    Pv = np.dot(P, v)
    inv_v = [harness.close(np.dot(R, v), v, PREM) for R in gens]
    prem_v = core.And(*inv_v) if sym else all(inv_v)
    ob('vector:invariant=>in-span', core.Implies(prem_v, harness.close(Pv, v, CONC)) if sym else ((not prem_v) or harness.close(Pv, v, CONC)))
    c2 = [harness.close(np.dot(R, Pv), Pv, CONC) for R in hops]
    ob('vector:in-span=>invariant', core.And(*c2) if sym else all(c2))
    # orthonormal tensor basis
    gram = np.array([[np.sum(b1 * b2) for b2 in tb] for b1 in tb]) if len(tb) else np.zeros((0, 0))
    ob('tensor:orthonormal', bool(np.allclose(gram, np.eye(len(tb)), atol=1e-8)))
    ob('tensor:symmetric-basis', all(np.allclose(b, b.T, atol=1e-10) for b in tb))
    PT = sum((b * np.sum(T * b) for b in tb), np.zeros((dim, dim)))
    inv_t = [harness.close(np.dot(R, np.dot(T, R.T)).ravel(), T.ravel(), PREM) for R in gens]
    prem_t = core.And(*inv_t) if sym else all(inv_t)
    ob('tensor:invariant=>in-span', core.Implies(prem_t, harness.close(np.asarray(PT, dtype=object).ravel(), T.ravel(), CONC)) if sym
       else ((not prem_t) or harness.close(np.asarray(PT).ravel(), T.ravel(), CONC)))
    c4 = [harness.close(np.dot(R, np.dot(PT, R.T)).ravel(), np.asarray(PT, dtype=object).ravel(), CONC) for R in hops]
    ob('tensor:in-span=>invariant', core.And(*c4) if sym else all(c4))
    if vb[0] not in (0, dim):
        ob('vector:unit', bool(abs(np.dot(vb[1], vb[1]) - 1) < 1e-8))


def subgroup_section(kind, part, nparts):
    def fn(src=None):
        src = src or Src()
        crys, ops = holohedry(kind)
        dim = crys.dim
        subs = subgroups(kind)
        obs = []
        for si in range(part, len(subs), nparts):
            H = subs[si]
            name = 'subgroup:%s:%d' % (kind, si)
            info = src.info(replayer='subgroup', extra={'kind': kind, 'part': part, 'nparts': nparts})

            def ob(n, v, name=name, info=info):
                obs.append(('%s:%s' % (name, n), v, dict(info, sig='subgroup:' + n)))
            hs = [ops[k] for k in H]
            try:
                vb = reduce(crystal.CombineVectorBasis, [crystal.VectorBasis(*g.eigen()) for g in hs])
                tb = reduce(crystal.CombineTensorBasis, [crystal.SymmTensorBasis(*g.eigen()) for g in hs])
            except Exception as e:   # noqa
                ob('basis-raises', False)
                continue
            invariance_obligations(src, [np.array(g.cartrot) for g in hs], dim, vb, tb, name, info, ob,
                                   gens=[np.array(ops[k].cartrot) for k in _GENS[kind][H]] or [np.eye(dim)])
        if src.symbolic:
            obs.append(('twin:subgroup:%s:%d' % (kind, part), False))
        return obs
    return fn


def site_section(cname):
    def fn(src=None):
        src = src or Src()
        crys = geom.get_crystal(cname)
        dim = crys.dim
        obs = []
        R = geom.sym_R(src, 'R', dim)
        zero = np.zeros(dim, dtype=int)
        info = src.info(replayer='site', extra={'crystal': cname})
        for ci in crys.atomindices:
            name = 'site:%s:%d.%d' % (cname, ci[0], ci[1])

            def ob(n, v, name=name):
                obs.append(('%s:%s' % (name, n), v, dict(info, sig='site:' + n.split('@')[0])))
            PG = sorted(crys.pointG[ci[0]][ci[1]], key=lambda g: (g.rot.tolist(), np.round(g.trans, 6).tolist()))
            vb = crys.VectorBasis(ci)
            tb = crys.SymmTensorBasis(ci)
            invariance_obligations(src, [np.array(g.cartrot) for g in PG], dim, vb, tb, name, info, ob)
            x0 = crys.pos2cart(zero, ci)
            for k, g in enumerate(PG):
                gR, gci = crys.g_pos(g, zero, ci)
                ob('pointgroup-fixes-site@%d' % k, gci == ci and bool(np.all(gR == 0)))
                gR2, gci2 = crys.g_pos(g, R, ci)
                ob('pointgroup-rotates-about-site@%d' % k, (gci2 == ci) and harness.close(
                    crys.pos2cart(gR2, gci2) - x0, np.dot(g.cartrot, crys.pos2cart(R, ci) - x0), 1e-8))
            # the stabiliser is complete: every operation mapping the site to a translate of itself is listed (shifted)
            nstab = sum(1 for g in crys.G if g.indexmap[ci[0]][ci[1]] == ci[1])
            ob('pointgroup-complete', nstab == len(PG))
            # Wyckoff set of this atom == its orbit, found by an independent geometric search
            orbit = set()
            for g in crys.G:
                orbit.add(geom.image_atom(crys, g, ci))
            wset = next(ws for ws in crys.Wyckoff if ci in ws)
            ob('wyckoff-is-orbit', set(wset) == orbit)
        return obs
    return fn


def wyckoffpos_section(cname):
    def fn(src=None):
        src = src or Src()
        crys = geom.get_crystal(cname)
        dim = crys.dim
        G = geom.sorted_ops(crys)
        name = 'wyckoffpos:' + cname
        u = src.reals('u', dim, 0, 1 - 1e-3)
        if src.symbolic:
            # guard band (DESIGN 1.6): coordinates either on a special value (0, 1/4, 1/2, 3/4 ... within 1e-10) or 1e-4 away,
            # and pairwise sums/differences likewise: coincidences of images are then either exact or clear
            specials = [k / 12.0 for k in range(13)]
            for x in u:
                for s in specials:
                    d = abs(x - s)
                    ENG.assume(core.Or(d <= 1e-10, d >= 1e-4))
            for a in range(dim):
                for b in range(a + 1, dim):
                    for sgn in (1, -1):
                        for s in [k / 2.0 for k in range(-2, 5)]:
                            d = abs(u[a] + sgn * u[b] - s)
                            ENG.assume(core.Or(d <= 1e-10, d >= 1e-4))
        with shim.symbolic_mode():
            lis = crys.Wyckoffpos(u)
        obs = []
        info = src.info(replayer='wyckoffpos', extra={'crystal': cname})
        zero = np.zeros(dim, dtype=int)
        sym = src.symbolic

        def near(a, b):
            d = crystal.inhalf(np.asarray(a, dtype=object) - np.asarray(b, dtype=object)) if sym else crystal.inhalf(np.asarray(a - b, dtype=float))
            cs = [abs(x) <= 1e-7 for x in d]
            return core.And(*cs) if sym else all(cs)
        for gi, g in enumerate(G):
            gu = crystal.Crystal.g_vect(g, zero, u)[1]
            hits = [near(gu, w) for w in lis]
            if sym:
                obs.append(('%s:image-listed-once@%d' % (name, gi), core.SymBool(core.z3.PbEq([(core.tob(h), 1) for h in hits], 1)),
                            dict(info, sig='wyckoffpos:image-listed-once')))
            else:
                obs.append(('%s:image-listed-once@%d' % (name, gi), sum(1 for h in hits if h) == 1, dict(info, sig='wyckoffpos:image-listed-once')))
        # every listed position is an image of u
        for wi, w in enumerate(lis):
            hits = [near(crystal.Crystal.g_vect(g, zero, u)[1], w) for g in G]
            obs.append(('%s:entry-is-image@%d' % (name, wi), core.Or(*hits) if sym else any(hits), dict(info, sig='wyckoffpos:entry-is-image')))
        if sym:
            obs.append(('twin:%s' % name, False))
        return obs
    return fn


SITE_Q = ['hcp', 'hcpoct', 'rumpled', 'rect2', 'l12', 'mono', 'honeycomb', 'fcc111', 'b2', 'tetra-polar-abx2', 'ortho-ab-general', 'omega', 'wurtzite', 'tric-abc']
SITE_T = ['sc', 'fcc', 'bcc', 'hcp', 'diamond', 'b2', 'l12', 'nbo', 'bccoct', 'hcpoct', 'square', 'rect2', 'tria', 'honeycomb', 'rumpled',
          'mono', 'afm-square', 'afm-bcc', 'wurtzite', 'fcc111']
WYCK_Q = ['rect1', 'mono']
WYCK_T = ['rect1', 'mono', 'rect2', 'ortho1']


def sections(tier):
    S = run.Section
    secs = []
    nparts = 8
    for kind in ('cubic', 'hex', 'cubic-rot', 'square2d', 'hex2d'):
        for part in range(nparts if kind not in ('square2d', 'hex2d') else 2):
            np_ = nparts if kind not in ('square2d', 'hex2d') else 2
            secs.append(S('subgroup:%s:%d' % (kind, part), subgroup_section(kind, part, np_), budget_s=170 if tier == 'quick' else 1200,
                          replayer='subgroup', config=kind, timeout_ms=20000, maxpaths=8))
    for c in (SITE_Q if tier == 'quick' else SITE_T):
        secs.append(S('site:' + c, site_section(c), budget_s=170 if tier == 'quick' else 1200, replayer='site', config=c, timeout_ms=20000, maxpaths=8))
    for c in (WYCK_Q if tier == 'quick' else WYCK_T):
        secs.append(S('wyckoffpos:' + c, wyckoffpos_section(c), budget_s=170 if tier == 'quick' else 1200, replayer='wyckoffpos', config=c,
                      timeout_ms=20000, maxpaths=3000))
    return secs


def main():
    import warnings
    warnings.simplefilter('ignore')
    if REPLAY:
        run.replay_main('C20', {
            'subgroup': lambda rec: harness.run_laws_concrete(subgroup_section(rec['extra']['kind'], rec['extra']['part'], rec['extra']['nparts']), rec),
            'site': lambda rec: harness.run_laws_concrete(site_section(rec['extra']['crystal']), rec),
            'wyckoffpos': lambda rec: harness.run_laws_concrete(wyckoffpos_section(rec['extra']['crystal']), rec)})
    C = crystal.Crystal
    chk = run.Check(
        'C20',
        functions=[loader.func_hash(f) for f in (crystal.GroupOp.eigen, crystal.GroupOp.optype, crystal.VectorBasis, crystal.SymmTensorBasis,
                                                 crystal.CombineVectorBasis, crystal.CombineTensorBasis, C.VectorBasis, C.SymmTensorBasis,
                                                 C.genpoint, C.genWyckoffsets, C.Wyckoffpos, C.vectlist)],
        assumptions=[
            'site groups: every subgroup of m-3m (%d; in the standard setting and in a rotated setting with generic axis directions), of 6/mmm (%d) and of the 2-d holohedries 4mm and 6mm, enumerated by closure; vectors/tensors symbolic in [-1,1]; '
            '"invariant" premise to 1e-9, "in the span" conclusion to 1e-6 (Cartesian rotations of the hexagonal system are floats)' % (
                len(subgroups('cubic')), len(subgroups('hex'))),
            'crystal sites enumerated from the crystal library; point group fixes its site for every lattice translation |R|<=1000',
            'Wyckoffpos with symbolic position: crystals with <= 8 operations; guard band: coordinates and pairwise sums/differences are '
            'either within 1e-10 of a special value (k/12, k/2) or at least 1e-4 away; position kept 1e-3 below the cell boundary',
            '"adding a full orbit keeps the symmetry" (addbasis) is not covered',
        ],
        explanation='Real eigen/VectorBasis/SymmTensorBasis/Combine* executed for every subgroup as a site group; invariance <=> span decided '
                    'by z3 for symbolic vectors and tensors; Crystal-level bases, point groups and Wyckoffpos(u) with symbolic u.',
        bounds='subgroups of m-3m and 6/mmm; sites of %s (quick) / %s (thorough); Wyckoffpos on %s / %s' % (SITE_Q, SITE_T, WYCK_Q, WYCK_T))
    chk.run(sections(chk.tier))
    chk.finish()


if __name__ == '__main__':
    main()
